package main

import (
	"fmt"
	"path/filepath"
	"sort"
	"strings"
)

// boundsOf walks a wire grammar and lists the bounded/unbounded variable-length
// items (opaque<>, string<>, array<>) with the field they code, in order.
func boundsOf(g *G, out *[]*G) {
	if g == nil {
		return
	}
	switch g.Kind {
	case "VarOpaque", "String", "VarArray":
		*out = append(*out, g)
	}
	for _, it := range g.Items {
		boundsOf(it, out)
	}
	for _, a := range g.Arms {
		for _, it := range a.Body {
			boundsOf(it, out)
		}
	}
	for _, it := range g.Default {
		boundsOf(it, out)
	}
	boundsOf(g.Elem, out)
}

func refsOf(g *G, out map[string]bool) {
	if g == nil {
		return
	}
	if g.Kind == "Ref" {
		out[g.Ref] = true
	}
	for _, it := range g.Items {
		refsOf(it, out)
	}
	for _, a := range g.Arms {
		for _, it := range a.Body {
			refsOf(it, out)
		}
	}
	for _, it := range g.Default {
		refsOf(it, out)
	}
	refsOf(g.Elem, out)
}

// ruleXdrBounds: the generated codec refuses (when decoding) or cannot produce
// (when encoding) a variable-length item longer than the bound written into
// it.  RFC 1813 leaves the data of WRITE and READ, names and paths unbounded;
// the server announces its own limits (wtmax, rtmax, name length) and enforces
// them in the handlers, with an NFS status.  A codec bound tighter than the
// RFC's cuts below what is announced: an argument within the limits is
// refused as garbage before the handler runs (which = "args"), a reply the
// handler produced cannot be encoded and the client never gets an answer
// (which = "res").
func ruleXdrBounds(c *Ctx, id, which string) {
	P, R := c.P, c.R
	what := map[string]string{"args": "argument", "res": "result"}[which]
	R.Rule(id, "the wire codec is not stricter than the protocol: every variable-length item reachable from the "+what+" types of the NFS and MOUNT procedures has the bound of RFC 1813 (or none)", map[string]int{"args": 5, "res": 8}[which])
	pk := P.Pkg("nfstypes")
	xp := P.All["github.com/zeldovich/go-rpcgen/xdr"]
	if pk == nil || xp == nil || len(xp.GoFiles) == 0 {
		R.Unresolved(id, "nfstypes / go-rpcgen xdr package")
		return
	}
	protx := filepath.Join(filepath.Dir(filepath.Dir(xp.GoFiles[0])), "rfc1813", "prot.x")
	xf, err := ParseXDR(protx)
	if err != nil {
		R.Undecided(id, "prot.x", protx, "the RFC description parses", err.Error())
		return
	}
	gx := newGoXdr(pk)
	// the types reachable from the argument (result) types of the procedures
	reach := map[string]bool{}
	var work []string
	for _, pg := range xf.Progs {
		for _, pr := range pg.Procs {
			t := pr.Arg
			if which == "res" {
				t = pr.Res
			}
			if t != "void" && t != "" && !reach[t] {
				reach[t] = true
				work = append(work, t)
			}
		}
	}
	rfcOf := map[string]string{} // Go name -> RFC name
	for _, rn := range xf.TypeOrd {
		rfcOf[goName(rn)] = rn
	}
	for len(work) > 0 {
		rn := work[len(work)-1]
		work = work[:len(work)-1]
		rg := xf.Types[rn]
		if rg == nil {
			continue
		}
		rs := map[string]bool{}
		refsOf(rg, rs)
		for r := range rs {
			n := rfcOf[r]
			if n == "" {
				n = r
			}
			if xf.Types[n] != nil && !reach[n] {
				reach[n] = true
				work = append(work, n)
			}
		}
	}
	var names []string
	for rn := range reach {
		names = append(names, rn)
	}
	sort.Strings(names)
	for _, rn := range names {
		gn := goName(rn)
		fd := gx.decls[gn]
		if fd == nil {
			continue // C16.X2 reports a missing codec
		}
		mode := "dec"
		if which == "res" {
			mode = "enc"
		}
		before := len(gx.errs)
		gg := gx.Grammar(gn, mode)
		if len(gx.errs) > before {
			R.Undecided(id, gn+"|understood", P.Pos(fd.Pos()), "every statement of the codec is interpreted", strings.Join(gx.errs[before:], "; "))
			continue
		}
		var gb, rb []*G
		boundsOf(gg, &gb)
		boundsOf(xf.Types[rn], &rb)
		R.Analysed[gn+".Xdr"] = true
		if len(gb) != len(rb) {
			if len(gb) > 0 || len(rb) > 0 {
				R.Fail(id, gn+"|variable-length items", P.Pos(fd.Pos()), fmt.Sprintf("the codec of %s has the %d variable-length items of the RFC type", gn, len(rb)), fmt.Sprintf("%d items", len(gb)))
			}
			continue
		}
		for i, g := range gb {
			r := rb[i]
			f := g.Field
			if f == "" {
				f = "(self)"
			}
			lim := "none"
			if r.N >= 0 {
				lim = fmt.Sprint(r.N)
			}
			ok := g.N < 0 || (r.N >= 0 && g.N >= r.N)
			R.Check(ok, id, fmt.Sprintf("%s.%s|bound not below the RFC's", gn, f), P.Pos(fd.Pos()), fmt.Sprintf("the codec lets through every %s the protocol allows (RFC bound: %s)", strings.ToLower(g.Kind), lim), fmt.Sprintf("bound %d", g.N), fmt.Sprintf("the codec bounds %s.%s at %d bytes/elements where the protocol sets %s: a longer %s - within what the server announces and its handler accepts - %s", gn, f, g.N, lim, what, map[string]string{"args": "is refused as garbage before the handler runs", "res": "cannot be encoded: the reply is dropped and the client waits for ever"}[which]))
		}
	}
}
