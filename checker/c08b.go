package main

func ruleG4(c *Ctx, id string) {}
