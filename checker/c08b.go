package main

import (
	"fmt"
	"go/types"
	"sort"
	"strings"
)

// handleLeaves: field paths of type Nfs_fh3 inside the request type.
func handleLeaves(t types.Type, prefix string, d int) []string {
	if d > 4 {
		return nil
	}
	if n, ok := types.Unalias(t).(*types.Named); ok && n.Obj().Name() == "Nfs_fh3" {
		return []string{prefix}
	}
	st, ok := t.Underlying().(*types.Struct)
	if !ok {
		return nil
	}
	var out []string
	for i := 0; i < st.NumFields(); i++ {
		p := st.Field(i).Name()
		if prefix != "" {
			p = prefix + "." + p
		}
		out = append(out, handleLeaves(st.Field(i).Type(), p, d+1)...)
	}
	return out
}

func ruleG4(c *Ctx, id string) {
	R, P := c.R, c.P
	R.Rule(id, "every handle argument of every procedure is checked: on every path to a success status each Nfs_fh3 leaf of the request has been passed to GetInodeFh, or its decoded generation has been compared with the generation of the inode acquired by number", 23)
	t := c.tsPreamble(id)
	leaves := map[string][]string{}
	pos := map[string]string{}
	for _, h := range c.V.NfsProcs {
		if p := requestParam(h); p != nil {
			leaves[h.Name()] = handleLeaves(p.Type(), "", 0)
		}
		pos[h.Name()] = P.Pos(h.Pos())
	}
	type agg struct {
		bad bool
		n   int
	}
	res := map[string]*agg{}
	for h, ls := range leaves {
		for _, l := range ls {
			res[h+"|handle "+l] = &agg{}
		}
	}
	for _, sn := range t.Snaps {
		if !isProc(c, sn.Entry) {
			continue
		}
		cls, _ := statusClass(sn)
		if cls != "ok" {
			continue
		}
		for _, l := range leaves[sn.Entry] {
			a := res[sn.Entry+"|handle "+l]
			a.n++
			_, ok := sn.G.Cells["$fh:"+l]
			if !ok {
				// byte-equal to a handle that was checked on this path (fh.Equal true edge)
				for k := range sn.G.Cells {
					if strings.HasPrefix(k, "$fheq:") {
						ab := strings.SplitN(strings.TrimPrefix(k, "$fheq:"), "=", 2)
						if len(ab) == 2 {
							other := ""
							if ab[0] == l {
								other = ab[1]
							} else if ab[1] == l {
								other = ab[0]
							}
							if other != "" {
								if _, ok2 := sn.G.Cells["$fh:"+other]; ok2 {
									ok = true
								}
							}
						}
					}
				}
			}
			if !ok {
				a.bad = true
			}
		}
	}
	var keys []string
	for k := range res {
		keys = append(keys, k)
	}
	sort.Strings(keys)
	for _, k := range keys {
		a := res[k]
		h := k[:strings.Index(k, "|")]
		if a.n == 0 {
			R.Pass(id, k, pos[h], "no success path (procedure always fails)", "no success end state")
			continue
		}
		R.Check(!a.bad, id, k+"|checked before success", pos[h], "the handle is validated (live inode, matching generation) on every path that reports success", fmt.Sprintf("checked on all %d success end states", a.n), "a success reply is possible although this handle was never validated: a stale handle (object removed, number reused) is accepted")
	}
}
