package main

import (
	"go/constant"
	"go/token"
	"go/types"

	"golang.org/x/tools/go/ssa"
)

// fwdClosure is the forward def-use closure of v inside its function through
// value-preserving operations: conversions, phis, extraction, slicing, being
// stored into a freshly allocated array/slot (then the allocation carries it),
// append.  With arith=true binary operations also propagate (taint).
func fwdClosure(roots []ssa.Value, arith bool) map[ssa.Value]bool {
	seen := map[ssa.Value]bool{}
	var work []ssa.Value
	push := func(v ssa.Value) {
		if v != nil && !seen[v] {
			seen[v] = true
			work = append(work, v)
		}
	}
	for _, r := range roots {
		push(r)
	}
	for len(work) > 0 {
		v := work[len(work)-1]
		work = work[:len(work)-1]
		for _, in := range refs(v) {
			switch x := in.(type) {
			case *ssa.Convert:
				push(x)
			case *ssa.ChangeType:
				push(x)
			case *ssa.ChangeInterface:
				push(x)
			case *ssa.MakeInterface:
				push(x)
			case *ssa.Phi:
				push(x)
			case *ssa.Extract:
				push(x)
			case *ssa.Slice:
				if x.X == v {
					push(x)
				}
			case *ssa.UnOp:
				if x.Op == token.MUL {
					// load from an address that carries the value (alloc slot)
					push(x)
				} else if arith {
					push(x)
				}
			case *ssa.BinOp:
				if arith {
					push(x)
				}
			case *ssa.IndexAddr:
				if x.X == v {
					push(x)
				}
			case *ssa.FieldAddr:
				if x.X == v && arith {
					push(x)
				}
			case *ssa.Field:
				if arith {
					push(x)
				}
			case *ssa.Index:
				if x.X == v {
					push(x)
				}
			case *ssa.Store:
				if x.Val == v {
					// the location now carries the value: local alloc or
					// element of a local alloc
					base := x.Addr
					for {
						if ia, ok := base.(*ssa.IndexAddr); ok {
							base = ia.X
							continue
						}
						if fa, ok := base.(*ssa.FieldAddr); ok {
							if _, isAlloc := fa.X.(*ssa.Alloc); isAlloc {
								base = fa.X
								continue
							}
						}
						break
					}
					if a, ok := base.(*ssa.Alloc); ok {
						push(a)
					}
					if sl, ok := base.(*ssa.Slice); ok {
						push(sl)
					}
					if mk, ok := base.(*ssa.MakeSlice); ok {
						push(mk)
					}
				}
			case *ssa.Call:
				if bi, ok := x.Call.Value.(*ssa.Builtin); ok {
					switch bi.Name() {
					case "append":
						push(x)
					case "copy":
						// copy(dst, src): dst carries src
						if len(x.Call.Args) == 2 && x.Call.Args[1] == v {
							push(x.Call.Args[0])
						}
					}
				}
			}
		}
	}
	return seen
}

// cmpZeroEdge returns an edge predicate: true for CFG edges taken when a value
// in set compares equal to the integer constant 0 / nil.
func cmpZeroEdge(fn *ssa.Function, set map[ssa.Value]bool) func(from, to *ssa.BasicBlock) bool {
	type edge struct{ f, t int }
	ex := map[edge]bool{}
	for _, b := range fn.Blocks {
		if len(b.Instrs) == 0 {
			continue
		}
		ifi, ok := b.Instrs[len(b.Instrs)-1].(*ssa.If)
		if !ok {
			continue
		}
		bo, ok := ifi.Cond.(*ssa.BinOp)
		if !ok || (bo.Op != token.EQL && bo.Op != token.NEQ) {
			continue
		}
		var other ssa.Value
		if set[bo.X] {
			other = bo.Y
		} else if set[bo.Y] {
			other = bo.X
		} else {
			continue
		}
		z := false
		if i, ok := constInt(other); ok && i == 0 {
			z = true
		}
		if isNilConst(other) {
			z = true
		}
		if !z {
			continue
		}
		if bo.Op == token.EQL {
			ex[edge{b.Index, b.Succs[0].Index}] = true
		} else {
			ex[edge{b.Index, b.Succs[1].Index}] = true
		}
	}
	return func(from, to *ssa.BasicBlock) bool { return ex[edge{from.Index, to.Index}] }
}

// boolEdge returns an edge predicate: true for edges taken when the boolean
// value v (or !v chains) evaluates to want.
func boolEdge(fn *ssa.Function, v ssa.Value, want bool) func(from, to *ssa.BasicBlock) bool {
	type edge struct{ f, t int }
	ex := map[edge]bool{}
	for _, b := range fn.Blocks {
		if len(b.Instrs) == 0 {
			continue
		}
		ifi, ok := b.Instrs[len(b.Instrs)-1].(*ssa.If)
		if !ok {
			continue
		}
		c := ifi.Cond
		neg := false
		for {
			if u, ok := c.(*ssa.UnOp); ok && u.Op == token.NOT {
				neg = !neg
				c = u.X
				continue
			}
			break
		}
		if c != v {
			continue
		}
		// cond true -> succ0. cond = neg? !v : v
		// v==want on succ0 iff (want != neg)
		if want != neg {
			ex[edge{b.Index, b.Succs[0].Index}] = true
		} else {
			ex[edge{b.Index, b.Succs[1].Index}] = true
		}
	}
	return func(from, to *ssa.BasicBlock) bool { return ex[edge{from.Index, to.Index}] }
}

// loadedField: v (after stripping conversions) is a load of struct field
// T.f, possibly an element of the slice held in the field.
func loadedField(v ssa.Value) (*types.Named, string, ssa.Value, bool) {
	v = stripConv(v)
	if u, ok := v.(*ssa.UnOp); ok && u.Op == token.MUL {
		if n, f, base := FieldOf(u.X); n != nil {
			return n, f, stripConv(base), false
		}
		if ia, ok := u.X.(*ssa.IndexAddr); ok {
			if n, f, base := fieldLoad(ia.X); n != nil {
				return n, f, stripConv(base), true
			}
		}
	}
	if ix, ok := v.(*ssa.Index); ok {
		if n, f, base := fieldLoad(ix.X); n != nil {
			return n, f, stripConv(base), true
		}
	}
	return nil, "", nil, false
}

// reachableFrom: is instruction b reachable from instruction a along the CFG
// (a strictly before b on some path)?
func reachableFrom(a, b ssa.Instruction) bool {
	ba, bb := a.Block(), b.Block()
	if ba == nil || bb == nil || ba.Parent() != bb.Parent() {
		return false
	}
	if ba == bb {
		ia, ib := -1, -1
		for i, x := range ba.Instrs {
			if x == a {
				ia = i
			}
			if x == b {
				ib = i
			}
		}
		if ia < ib {
			return true
		}
	}
	seen := map[*ssa.BasicBlock]bool{}
	var work []*ssa.BasicBlock
	for _, s := range ba.Succs {
		work = append(work, s)
	}
	for len(work) > 0 {
		x := work[len(work)-1]
		work = work[:len(work)-1]
		if seen[x] {
			continue
		}
		seen[x] = true
		if x == bb {
			return true
		}
		work = append(work, x.Succs...)
	}
	return false
}

// recvOf returns the receiver argument of a method call (static or invoke).
func recvOf(in ssa.Instruction) ssa.Value {
	c := callCommon(in)
	if c == nil {
		return nil
	}
	if c.IsInvoke() {
		// a go-nfsd object seen through an interface is still that object
		return stripConv(c.Value)
	}
	if f := c.StaticCallee(); f != nil && f.Signature.Recv() != nil && len(c.Args) > 0 {
		return c.Args[0]
	}
	// a bound method value: the receiver travels in the closure
	if mc, ok := c.Value.(*ssa.MakeClosure); ok && len(mc.Bindings) == 1 {
		if fn, isF := mc.Fn.(*ssa.Function); isF && wrappedMethod(fn) != nil {
			return stripConv(mc.Bindings[0])
		}
	}
	return nil
}

// argN returns the n-th non-receiver argument.
func argN(in ssa.Instruction, n int) ssa.Value {
	c := callCommon(in)
	if c == nil {
		return nil
	}
	args := c.Args
	if !c.IsInvoke() {
		if f := c.StaticCallee(); f != nil && f.Signature.Recv() != nil {
			args = args[1:]
		}
	}
	if n < len(args) {
		return args[n]
	}
	return nil
}

// constValInt evaluates a package-level constant object to an int64.
func constValInt(o types.Object) (int64, bool) {
	c, ok := o.(*types.Const)
	if !ok {
		return 0, false
	}
	if c.Val().Kind() != constant.Int {
		return 0, false
	}
	if i, ok := constant.Int64Val(c.Val()); ok {
		return i, true
	}
	if u, ok := constant.Uint64Val(c.Val()); ok {
		return int64(u), true
	}
	return 0, false
}

// fieldOfCallResult: v is field F of the struct value returned by a call
// (either Field(call) or a load of &local.F where local was assigned the
// call's result exactly once).  Returns the call and the field name.
func fieldOfCallResult(v ssa.Value) (*ssa.Call, string) {
	v = stripConv(v)
	switch x := v.(type) {
	case *ssa.Field:
		if call, ok := x.X.(*ssa.Call); ok {
			return call, fieldNameOfValue(x)
		}
	case *ssa.UnOp:
		if x.Op != token.MUL {
			return nil, ""
		}
		fa, ok := x.X.(*ssa.FieldAddr)
		if !ok {
			return nil, ""
		}
		al, ok := fa.X.(*ssa.Alloc)
		if !ok {
			return nil, ""
		}
		var src *ssa.Call
		n := 0
		for _, in := range refs(al) {
			if st, ok := in.(*ssa.Store); ok && st.Addr == al {
				n++
				src, _ = st.Val.(*ssa.Call)
			}
		}
		if n == 1 && src != nil {
			if st := derefStruct(al.Type()); st != nil {
				return src, st.Field(fa.Field).Name()
			}
		}
	}
	return nil, ""
}

// ---------------------------------------------------------------- producers

// A producer of a value: the call whose idx-th result it is (through phis,
// conversions and single-assignment cells).
type producer struct {
	call *ssa.Call
	idx  int
}

func producersOf(v ssa.Value) (out []producer, other bool) {
	seen := map[ssa.Value]bool{}
	var walk func(v ssa.Value)
	walk = func(v ssa.Value) {
		if v == nil || seen[v] {
			return
		}
		seen[v] = true
		switch x := v.(type) {
		case *ssa.Phi:
			for _, e := range x.Edges {
				walk(e)
			}
		case *ssa.Convert:
			walk(x.X)
		case *ssa.ChangeType:
			walk(x.X)
		case *ssa.Slice:
			walk(x.X)
		case *ssa.Extract:
			if cl, ok := x.Tuple.(*ssa.Call); ok {
				out = append(out, producer{cl, x.Index})
			} else {
				other = true
			}
		case *ssa.Call:
			out = append(out, producer{x, 0})
		case *ssa.Const:
			// nil / zero: not a producer
		case *ssa.UnOp:
			if x.Op == token.MUL {
				if al, ok := x.X.(*ssa.Alloc); ok {
					n := 0
					for _, in := range refs(al) {
						if st, ok := in.(*ssa.Store); ok && st.Addr == ssa.Value(al) {
							walk(st.Val)
							n++
						}
					}
					if n == 0 {
						other = true
					}
					return
				}
			}
			other = true
		default:
			other = true
		}
	}
	walk(v)
	return
}

// derivesOnlyFrom: every producer of v is a call accepted by ok, or a call of
// a go-nfsd helper whose corresponding result derives only from such calls.
func derivesOnlyFrom(v ssa.Value, ok func(*ssa.Function) bool, depth int) (bool, int) {
	ps, other := producersOf(v)
	if other {
		return false, 0
	}
	n := 0
	for _, p := range ps {
		cal := staticCallee(p.call)
		if cal != nil && ok(cal) {
			n++
			continue
		}
		if cal == nil || depth > 2 || !IsRepoFunc(cal) || cal.Blocks == nil {
			return false, n
		}
		for _, b := range cal.Blocks {
			if r, isR := b.Instrs[len(b.Instrs)-1].(*ssa.Return); isR {
				if p.idx >= len(r.Results) {
					return false, n
				}
				if c, isC := r.Results[p.idx].(*ssa.Const); isC && c.Value == nil {
					continue // a nil result
				}
				okR, m := derivesOnlyFrom(r.Results[p.idx], ok, depth+1)
				if !okR {
					return false, n
				}
				n += m
			}
		}
	}
	return true, n
}

// fullArgs: the arguments of a call including the receiver, whether the call
// is static (receiver first in Args) or goes through an interface (receiver
// in Value).
func fullArgs(in ssa.Instruction) []ssa.Value {
	c := callCommon(in)
	if c == nil {
		return nil
	}
	if c.IsInvoke() {
		return append([]ssa.Value{c.Value}, c.Args...)
	}
	return c.Args
}

// nonRecvArgs: the arguments of a call without the receiver, whether the
// method is called directly (receiver first in Args), through an interface, or
// through a method value (receiver bound in the closure).
func nonRecvArgs(in ssa.Instruction) []ssa.Value {
	c := callCommon(in)
	if c == nil {
		return nil
	}
	if !c.IsInvoke() {
		if f := c.StaticCallee(); f != nil && f.Signature.Recv() != nil && len(c.Args) > 0 {
			return c.Args[1:]
		}
	}
	return c.Args
}
