package main

// Thorough tier: besides the rules, the checker is tested both ways on every
// run.  Each file /verif/variants/<PROP>__<name>.patch is one small change to
// go-nfsd that breaks the property (or, for files named <PROP>__ok_<name>,
// preserves behaviour).  It is applied to a scratch copy of /repo's working
// tree outside /repo and /verif, the checker is run on the copy in a fresh
// process, the copy is removed at once.  A breaking variant must be reported
// with the rule named in its "# expect-rule:" header; a behaviour-preserving
// variant must produce no new report.

import (
	"bufio"
	"fmt"
	"os"
	"os/exec"
	"path/filepath"
	"sort"
	"strings"
	"sync"
)

type variantResult struct {
	Name     string `json:"variant"`
	Expect   string `json:"expect_rule"`
	Kind     string `json:"kind"` // breaking | preserving
	Applied  bool   `json:"applied"`
	Fired    bool   `json:"fired"`
	Reported string `json:"reported,omitempty"`
	OK       bool   `json:"ok"`
}

func copyTree(src, dst string) error {
	// tracked + untracked non-ignored files of the working tree
	cmd := exec.Command("git", "-C", src, "ls-files", "-z", "--cached", "--others", "--exclude-standard")
	out, err := cmd.Output()
	if err != nil {
		return err
	}
	for _, f := range strings.Split(string(out), "\x00") {
		if f == "" {
			continue
		}
		b, err := os.ReadFile(filepath.Join(src, f))
		if err != nil {
			continue // deleted in the working tree
		}
		p := filepath.Join(dst, f)
		os.MkdirAll(filepath.Dir(p), 0o755)
		if err := os.WriteFile(p, b, 0o644); err != nil {
			return err
		}
	}
	return nil
}

func runVariants(prop, repo, verif string, baseline map[string]bool) ([]variantResult, bool) {
	files, _ := filepath.Glob(filepath.Join(verif, "variants", prop+"__*.patch"))
	// shared (behaviour-preserving) variants name the properties they are run for in a "# props:" header
	shared, _ := filepath.Glob(filepath.Join(verif, "variants", "ALL__*.patch"))
	for _, f := range shared {
		if b, err := os.ReadFile(f); err == nil {
			for _, l := range strings.Split(string(b), "\n") {
				if strings.HasPrefix(l, "# props:") && (strings.Contains(l, prop) || strings.Contains(l, "all")) {
					files = append(files, f)
				}
				if strings.HasPrefix(l, "--- ") {
					break
				}
			}
		}
	}
	sort.Strings(files)
	self, _ := os.Executable()
	results := make([]variantResult, len(files))
	var wg sync.WaitGroup
	sem := make(chan struct{}, 6)
	for i, f := range files {
		wg.Add(1)
		go func(i int, f string) {
			defer wg.Done()
			sem <- struct{}{}
			defer func() { <-sem }()
			results[i] = runVariant(self, prop, repo, verif, f, baseline)
		}(i, f)
	}
	wg.Wait()
	all := true
	for _, r := range results {
		if !r.OK {
			all = false
		}
	}
	return results, all
}

func runVariant(self, prop, repo, verif, patchFile string, baseline map[string]bool) variantResult {
	name := strings.TrimSuffix(filepath.Base(patchFile), ".patch")
	res := variantResult{Name: name, Kind: "breaking"}
	if strings.Contains(name, "__ok_") {
		res.Kind = "preserving"
	}
	if fh, err := os.Open(patchFile); err == nil {
		sc := bufio.NewScanner(fh)
		for sc.Scan() {
			if strings.HasPrefix(sc.Text(), "# expect-rule:") {
				res.Expect = strings.TrimSpace(strings.TrimPrefix(sc.Text(), "# expect-rule:"))
				break
			}
			if strings.HasPrefix(sc.Text(), "--- ") {
				break
			}
		}
		fh.Close()
	}
	tmp, err := os.MkdirTemp("", "nfsverif-variant-")
	if err != nil {
		return res
	}
	defer os.RemoveAll(tmp)
	rdir := filepath.Join(tmp, "repo")
	vdir := filepath.Join(tmp, "verif")
	os.MkdirAll(rdir, 0o755)
	os.MkdirAll(vdir, 0o755)
	if err := copyTree(repo, rdir); err != nil {
		return res
	}
	if b, err := os.ReadFile(filepath.Join(verif, "known_findings.json")); err == nil {
		os.WriteFile(filepath.Join(vdir, "known_findings.json"), b, 0o644)
	}
	pc := exec.Command("patch", "-p1", "-s", "-f", "-i", patchFile)
	pc.Dir = rdir
	if out, err := pc.CombinedOutput(); err != nil {
		res.Reported = "patch does not apply: " + strings.TrimSpace(string(out))
		// a variant that no longer applies (the code it edits changed) is skipped, not failed
		res.Applied = false
		res.OK = true
		return res
	}
	res.Applied = true
	cmd := exec.Command(self, "-repo", rdir, "-verif", vdir, "-prop", prop, "-tier", "quick")
	cmd.Env = append(os.Environ(), "NFSVERIF_NESTED=1")
	out, _ := cmd.CombinedOutput()
	var lines []string // new failing rule|key pairs (not in the baseline of the unchanged tree)
	for _, l := range strings.Split(string(out), "\n") {
		if strings.HasPrefix(l, "FAILKEY ") {
			k := strings.TrimPrefix(l, "FAILKEY ")
			if !baseline[k] {
				lines = append(lines, k)
			}
		}
		if strings.HasPrefix(l, "LOAD-FAILURE") {
			lines = append(lines, "LOAD-FAILURE|"+l)
		}
	}
	res.Fired = len(lines) > 0
	if res.Kind == "preserving" {
		res.OK = !res.Fired
		if res.Fired {
			res.Reported = lines[0]
		}
		return res
	}
	for _, l := range lines {
		if res.Expect == "" || strings.HasPrefix(l, res.Expect+"|") {
			res.OK = true
			if len(l) > 220 {
				l = l[:220]
			}
			res.Reported = l
			break
		}
	}
	if !res.OK && len(lines) > 0 {
		res.Reported = "fired, but not with the expected rule: " + lines[0]
	}
	return res
}

func selftestSummary(rs []variantResult) string {
	n, ok, skipped := 0, 0, 0
	for _, r := range rs {
		n++
		if !r.Applied {
			skipped++
		} else if r.OK {
			ok++
		}
	}
	return fmt.Sprintf("%d variants: %d behaved as expected, %d no longer apply (skipped), %d unexpected", n, ok, skipped, n-ok-skipped)
}
