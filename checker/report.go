package main

import (
	"encoding/json"
	"fmt"
	"os"
	"path/filepath"
	"sort"
	"strings"
	"time"
)

// An Obligation is one instance of a rule: a call site, a store, a path, a
// type, a procedure.  Key identifies the construct without line numbers so
// that known findings survive unrelated edits.
type Obligation struct {
	Rule       string `json:"rule"`
	Key        string `json:"key"`
	Pos        string `json:"pos"`
	What       string `json:"what"`
	OK         bool   `json:"ok"`
	Why        string `json:"why"`
	Nontrivial bool   `json:"nontrivial"`
	Status     string `json:"status,omitempty"` // "", "UNDECIDED", "UNRESOLVED-ANCHOR", "RULE-VACUOUS"
}

type RuleInfo struct {
	ID    string `json:"id"`
	Text  string `json:"text"`
	Floor int    `json:"floor"`
	Count int    `json:"instances"`
	Fail  int    `json:"undischarged"`
}

type Report struct {
	remap     map[string]string // while set: only these rule ids are recorded, under the mapped id
	Prop      string
	Tier      string
	Level     string
	Obs       []*Obligation
	Rules     []*RuleInfo
	ruleIdx   map[string]*RuleInfo
	Expl      string
	NotDec    string
	Assume    []string
	Extra     map[string]interface{}
	start     time.Time
	Analysed  map[string]bool // functions analysed
	failing   map[string]bool
	PreFinish func()
}

func NewReport(prop, tier string) *Report {
	return &Report{Prop: prop, Tier: tier, Level: "other", ruleIdx: map[string]*RuleInfo{}, Extra: map[string]interface{}{}, start: time.Now(), Analysed: map[string]bool{}}
}

// Rule declares a rule with its anti-vacuity floor (instances confirmed by
// reading the pinned tree).
func (r *Report) Rule(id, text string, floor int) {
	if r.remap != nil {
		to, ok := r.remap[id]
		if !ok {
			return
		}
		id = to
	}
	if _, ok := r.ruleIdx[id]; ok {
		return
	}
	ri := &RuleInfo{ID: id, Text: text, Floor: floor}
	r.ruleIdx[id] = ri
	r.Rules = append(r.Rules, ri)
}

func (r *Report) add(o *Obligation) *Obligation {
	// a rule shared into another property under another id: obligations of the other rules of the donor are dropped
	if r.remap != nil {
		to, ok := r.remap[o.Rule]
		if !ok {
			return o
		}
		o.Rule = to
	}
	if _, ok := r.ruleIdx[o.Rule]; !ok {
		r.Rule(o.Rule, "", 0)
	}
	r.Obs = append(r.Obs, o)
	return o
}

func (r *Report) Pass(rule, key, pos, what, why string) {
	r.add(&Obligation{Rule: rule, Key: key, Pos: pos, What: what, OK: true, Why: why})
}

// PassNT records a discharged obligation that needed a path/flow argument.
func (r *Report) PassNT(rule, key, pos, what, why string) {
	r.add(&Obligation{Rule: rule, Key: key, Pos: pos, What: what, OK: true, Why: why, Nontrivial: true})
}

func (r *Report) Fail(rule, key, pos, what, why string) {
	r.add(&Obligation{Rule: rule, Key: key, Pos: pos, What: what, OK: false, Why: why, Nontrivial: true})
}

func (r *Report) Undecided(rule, key, pos, what, why string) {
	r.add(&Obligation{Rule: rule, Key: key, Pos: pos, What: what, OK: false, Why: why, Status: "UNDECIDED", Nontrivial: true})
}

func (r *Report) Unresolved(rule, anchor string) {
	r.add(&Obligation{Rule: rule, Key: "anchor|" + anchor, Pos: "?", What: "anchor " + anchor + " must resolve in /repo", OK: false, Why: "the rule's anchor no longer resolves; the rule would pass vacuously", Status: "UNRESOLVED-ANCHOR"})
}

// Check is Pass/Fail by condition.
func (r *Report) Check(ok bool, rule, key, pos, what, whyOK, whyFail string) bool {
	if ok {
		r.PassNT(rule, key, pos, what, whyOK)
	} else {
		r.Fail(rule, key, pos, what, whyFail)
	}
	return ok
}

// ---------------------------------------------------------------------------

type KnownFinding struct {
	Property string `json:"property"`
	Rule     string `json:"rule"`
	Key      string `json:"key"`
	What     string `json:"what"`
	Demo     string `json:"demonstration"`
	ID       string `json:"defect,omitempty"`
}

type KnownFile struct {
	Comment string         `json:"_comment"`
	Known   []KnownFinding `json:"known"`
	Fixed   []string       `json:"fixed"`
}

func loadKnown(path string) (*KnownFile, error) {
	b, err := os.ReadFile(path)
	if err != nil {
		if os.IsNotExist(err) {
			return &KnownFile{}, nil
		}
		return nil, err
	}
	var k KnownFile
	if err := json.Unmarshal(b, &k); err != nil {
		return nil, fmt.Errorf("%s: %v", path, err)
	}
	return &k, nil
}

// Finish applies floors, matches known findings, prints the verdict lines,
// writes evidence and returns the exit status.
// FailingKeys lists rule|key of the undischarged obligations that are not known findings
// (valid after Finish).
func (r *Report) FailingKeys() map[string]bool {
	return r.failing
}

func (r *Report) Finish(verifDir string, seed int) int {
	r.failing = map[string]bool{}
	for _, o := range r.Obs {
		ri := r.ruleIdx[o.Rule]
		ri.Count++
	}
	for _, ri := range r.Rules {
		if ri.Count < ri.Floor {
			ri.Count++
			ri.Floor = -ri.Floor // marks: message below uses the pre-increment count
			r.Obs = append(r.Obs, &Obligation{Rule: ri.ID, Key: "floor", Pos: "?", What: fmt.Sprintf("rule %s must match at least %d instances (confirmed by reading the pinned tree)", ri.ID, -ri.Floor), OK: false, Why: fmt.Sprintf("matched only %d: the rule has lost sight of its subjects", ri.Count-1), Status: "RULE-VACUOUS"})
			ri.Floor = -ri.Floor
		}
	}
	known, err := loadKnown(filepath.Join(verifDir, "known_findings.json"))
	if err != nil {
		fmt.Printf("ERROR known_findings.json: %v\n", err)
		return 2
	}
	kidx := map[string]*KnownFinding{}
	for i := range known.Known {
		k := &known.Known[i]
		if k.Property == r.Prop {
			kidx[k.Rule+"|"+k.Key] = k
		}
	}
	viold := filepath.Join(verifDir, "evidence", r.Prop+".violations")
	os.RemoveAll(viold)
	var nviol, nknown, ndis int
	var knownLines []string
	seenKnown := map[string]bool{}
	sort.SliceStable(r.Obs, func(i, j int) bool {
		if r.Obs[i].Rule != r.Obs[j].Rule {
			return r.Obs[i].Rule < r.Obs[j].Rule
		}
		return r.Obs[i].Key < r.Obs[j].Key
	})
	for _, o := range r.Obs {
		if os.Getenv("NFSVERIF_LIST") != "" {
			fmt.Printf("OB %v %s | %s | %s | %s\n", o.OK, o.Rule, o.Key, o.Pos, o.Why)
		}
		if o.OK {
			ndis++
			continue
		}
		r.ruleIdx[o.Rule].Fail++
		st := o.Status
		if st == "" {
			st = "UNDISCHARGED"
		}
		if k, ok := kidx[o.Rule+"|"+o.Key]; ok && o.Status == "" {
			nknown++
			line := fmt.Sprintf("KNOWN-FINDING: property=%s rule=%s %s [%s] %s", r.Prop, o.Rule, o.Pos, o.Key, k.What)
			if !seenKnown[line] {
				fmt.Println(line)
				seenKnown[line] = true
			}
			knownLines = append(knownLines, o.Rule+"|"+o.Key)
			continue
		}
		nviol++
		r.failing[o.Rule+"|"+o.Key] = true
		if os.Getenv("NFSVERIF_NESTED") != "" {
			fmt.Printf("FAILKEY %s|%s\n", o.Rule, o.Key)
		}
		os.MkdirAll(viold, 0o755)
		rp := filepath.Join(viold, fmt.Sprintf("%d.json", nviol))
		b, _ := json.MarshalIndent(o, "", " ")
		os.WriteFile(rp, b, 0o644)
		fmt.Printf("%s: [%s] %s %s: %s -- %s\n", o.Pos, o.Rule, st, o.Key, o.What, o.Why)
		fmt.Printf("VIOLATION property=%s replay=%s\n", r.Prop, rp)
	}
	// evidence
	nontriv := map[string]bool{}
	for _, o := range r.Obs {
		if o.Nontrivial {
			nontriv[o.Rule+"|"+o.Key] = true
		}
	}
	var samples []interface{}
	perRule := map[string]int{}
	for _, o := range r.Obs {
		if perRule[o.Rule] < 3 {
			perRule[o.Rule]++
			samples = append(samples, o)
		}
	}
	var fns []string
	for f := range r.Analysed {
		fns = append(fns, f)
	}
	sort.Strings(fns)
	expl := r.Expl
	if r.NotDec != "" {
		expl += " NOT DECIDED: " + r.NotDec
	}
	cov := map[string]interface{}{
		"explanation":         expl,
		"obligations":         len(r.Obs),
		"discharged":          ndis,
		"evaluations":         len(r.Obs),
		"distinct_nontrivial": len(nontriv),
		"rule":                "one obligation per rule instance (call site, store, path, type or procedure) found in /repo's current source; non-trivial = needed a path, flow, call-graph or grammar argument rather than a lookup; keyed by rule+construct",
		"rules":               r.Rules,
		"samples":             samples,
		"known_findings":      knownLines,
		"functions_analysed":  fns,
		"checker_cmd":         fmt.Sprintf("/verif/bin/nfsverif -prop %s -tier %s", r.Prop, r.Tier),
		"trusted_base":        []string{"go/types, golang.org/x/tools v0.29.0 (go/packages, go/ssa, callgraph/vta)", "go-journal, go-rpcgen xdr/rfc1057, tchajed/marshal, goose disk (analysed as callees, correctness assumed)"},
	}
	for k, v := range r.Extra {
		cov[k] = v
	}
	ev := map[string]interface{}{
		"property_id": r.Prop,
		"tier":        r.Tier,
		"seed":        seed,
		"level":       r.Level,
		"coverage":    cov,
		"assumptions": append([]string{"static analysis of /repo's working tree only; nothing is executed", "dependencies are trusted"}, r.Assume...),
		"wall_s":      time.Since(r.start).Seconds(),
		"violations":  nviol,
	}
	os.MkdirAll(filepath.Join(verifDir, "evidence"), 0o755)
	b, _ := json.MarshalIndent(ev, "", " ")
	if err := os.WriteFile(filepath.Join(verifDir, "evidence", r.Prop+".json"), b, 0o644); err != nil {
		fmt.Printf("ERROR writing evidence: %v\n", err)
		return 2
	}
	var rs []string
	for _, ri := range r.Rules {
		rs = append(rs, fmt.Sprintf("%s=%d/%d", ri.ID, ri.Count-ri.Fail, ri.Count))
	}
	fmt.Printf("%s tier=%s obligations=%d discharged=%d known=%d violations=%d  [%s]\n", r.Prop, r.Tier, len(r.Obs), ndis, nknown, nviol, strings.Join(rs, " "))
	if nviol > 0 {
		return 1
	}
	return 0
}

// rewriteEvidence merges Extra keys added after Finish into the evidence file.
func (r *Report) rewriteEvidence(verifDir string) {
	p := filepath.Join(verifDir, "evidence", r.Prop+".json")
	b, err := os.ReadFile(p)
	if err != nil {
		return
	}
	var ev map[string]interface{}
	if json.Unmarshal(b, &ev) != nil {
		return
	}
	cov, _ := ev["coverage"].(map[string]interface{})
	if cov == nil {
		return
	}
	for k, v := range r.Extra {
		cov[k] = v
	}
	ev["wall_s"] = time.Since(r.start).Seconds()
	nb, _ := json.MarshalIndent(ev, "", " ")
	os.WriteFile(p, nb, 0o644)
}
