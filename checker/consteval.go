package main

// Constant evaluation of closed integer functions.
//
// A layout or limit function such as inode.MaxFileSize() has no inputs: what it
// returns is a constant of the program even when it is written with a loop or
// with calls of other small pure functions (pow).  evalClosed folds such a
// function the way a compiler would: it interprets the SSA of functions that
// only compute on unsigned integers (arithmetic, comparisons, phis, branches,
// calls of functions of the same kind), with a step budget.  Anything else -
// a load, a store, a call of something that is not of this kind - makes the
// result unknown.

import (
	"go/constant"
	"go/token"

	"golang.org/x/tools/go/ssa"
)

func evalClosed(fn *ssa.Function, args []uint64, budget *int, depth int) (uint64, bool) {
	if fn == nil || fn.Blocks == nil || depth > 6 || len(args) != len(fn.Params) {
		return 0, false
	}
	env := map[ssa.Value]uint64{}
	for i, p := range fn.Params {
		env[p] = args[i]
	}
	val := func(v ssa.Value) (uint64, bool) {
		if c, ok := v.(*ssa.Const); ok {
			if c.Value == nil {
				return 0, false
			}
			switch c.Value.Kind() {
			case constant.Int:
				if u, ok := constant.Uint64Val(c.Value); ok {
					return u, true
				}
				if i, ok := constant.Int64Val(c.Value); ok {
					return uint64(i), true
				}
			case constant.Bool:
				if constant.BoolVal(c.Value) {
					return 1, true
				}
				return 0, true
			}
			return 0, false
		}
		x, ok := env[v]
		return x, ok
	}
	b := fn.Blocks[0]
	var pred *ssa.BasicBlock
	for {
		// phis first, simultaneously
		upd := map[ssa.Value]uint64{}
		for _, in := range b.Instrs {
			ph, ok := in.(*ssa.Phi)
			if !ok {
				break
			}
			for i, p := range b.Preds {
				if p == pred {
					x, ok := val(ph.Edges[i])
					if !ok {
						return 0, false
					}
					upd[ph] = x
				}
			}
		}
		for k, v := range upd {
			env[k] = v
		}
		for _, in := range b.Instrs {
			*budget--
			if *budget <= 0 {
				return 0, false
			}
			switch x := in.(type) {
			case *ssa.Phi, *ssa.DebugRef:
			case *ssa.Convert:
				a, ok := val(x.X)
				if !ok {
					return 0, false
				}
				env[x] = a
			case *ssa.ChangeType:
				a, ok := val(x.X)
				if !ok {
					return 0, false
				}
				env[x] = a
			case *ssa.UnOp:
				a, ok := val(x.X)
				if !ok || x.Op != token.NOT {
					return 0, false
				}
				env[x] = 1 - a
			case *ssa.BinOp:
				a, ok1 := val(x.X)
				c, ok2 := val(x.Y)
				if !ok1 || !ok2 {
					return 0, false
				}
				bl := func(t bool) uint64 {
					if t {
						return 1
					}
					return 0
				}
				switch x.Op {
				case token.ADD:
					env[x] = a + c
				case token.SUB:
					env[x] = a - c
				case token.MUL:
					env[x] = a * c
				case token.QUO:
					if c == 0 {
						return 0, false
					}
					env[x] = a / c
				case token.REM:
					if c == 0 {
						return 0, false
					}
					env[x] = a % c
				case token.SHL:
					env[x] = a << c
				case token.SHR:
					env[x] = a >> c
				case token.AND:
					env[x] = a & c
				case token.OR:
					env[x] = a | c
				case token.EQL:
					env[x] = bl(a == c)
				case token.NEQ:
					env[x] = bl(a != c)
				case token.LSS:
					env[x] = bl(a < c)
				case token.LEQ:
					env[x] = bl(a <= c)
				case token.GTR:
					env[x] = bl(a > c)
				case token.GEQ:
					env[x] = bl(a >= c)
				default:
					return 0, false
				}
			case *ssa.Call:
				cal := x.Call.StaticCallee()
				if cal == nil || x.Call.IsInvoke() {
					return 0, false
				}
				var as []uint64
				for _, a := range x.Call.Args {
					v, ok := val(a)
					if !ok {
						return 0, false
					}
					as = append(as, v)
				}
				r, ok := evalClosed(cal, as, budget, depth+1)
				if !ok {
					return 0, false
				}
				env[x] = r
			case *ssa.If:
				cv, ok := val(x.Cond)
				if !ok {
					return 0, false
				}
				pred = b
				if cv != 0 {
					b = b.Succs[0]
				} else {
					b = b.Succs[1]
				}
			case *ssa.Jump:
				pred = b
				b = b.Succs[0]
			case *ssa.Return:
				if len(x.Results) != 1 {
					return 0, false
				}
				return val(x.Results[0])
			default:
				return 0, false
			}
		}
	}
}
