package main

import (
	"fmt"
	"go/token"
	"go/types"
	"strings"

	"golang.org/x/tools/go/ssa"
)

func init() {
	props["C17"] = func(c *Ctx) {
		c.R.Expl = "Structural conditions the SimpleNFS proof's assumptions rest on in this Go code: (S1) every handler that touches the journal validates the inode number, takes that inode's lock, does all journal reads/writes and the commit inside the critical section, commits with CommitWait(true), reports NFS3_OK only on the commit's true side, never commits after a refused step, and releases the same lock on every path; (S2) the bounds of the data path dominate the buffer indexing; (S3) layout constants (30 files, data block of inode i, inode table block); (S4) advertised limits equal the enforced block size."
		c.R.NotDec = "the functional specification (bytes returned, eof flag), linearizability and crash behaviour beyond 'one synchronous journal operation under the inode's lock' - the package is the subject of a machine-checked proof elsewhere."
		ruleS17_1(c, "C17.S1")
		ruleS17_2(c, "C17.S2")
		ruleS17_3(c, "C17.S3")
		ruleS17_4(c, "C17.S4")
		ruleS17_5(c, "C17.S5")
		ruleS17_6(c, "C17.S6")
		ruleS17_7(c, "C17.S7")
		ruleS17_8(c, "C17.S8")
		ruleV1x(c, "C17.V1", []string{"simple.MakeFh"}, 1)
		ruleV5(c, "C17.V5")
	}
}

func ruleS17_1(c *Ctx, id string) {
	V, P, R := c.V, c.P, c.R
	R.Rule(id, "validate, lock, one transaction, commit(true), unlock - per SimpleNFS handler that reaches the journal", 45)
	valid := c.fn(id, "simple.validInum")
	fh2ino := P.Func("simple.fh2ino") // (a one-line wrapper of MakeFh(...).Ino; may be written out)
	if valid == nil {
		return
	}
	jops := funcIs(V.ReadBuf, V.OverWrite, V.JrnlCommitWait, V.SetDirty)
	reachesJ := func(f *ssa.Function) bool {
		if jops(f) {
			return true
		}
		if !IsRepoFunc(f) {
			return false
		}
		r := P.Reach([]*ssa.Function{f}, func(x *ssa.Function) bool { return !IsRepoFunc(x) && !jops(x) })
		return r[V.ReadBuf] || r[V.OverWrite] || r[V.JrnlCommitWait] || r[V.SetDirty]
	}
	nH := 0
	for _, h := range V.SimpleProcs {
		if !reachesJ(h) {
			continue
		}
		nH++
		R.Analysed[FuncName(h)] = true
		name := "simple." + h.Name()
		// the handler's own code: its body, the function literals written inside it, and the private helpers it calls
		// (with the function literals it hands them)
		hScopes := scopesOf(h)
		famSet := map[*ssa.Function]bool{}
		var fam []*ssa.Function
		addFam := func(f *ssa.Function) {
			for _, g := range lexicalFamily(f) {
				if !famSet[g] {
					famSet[g] = true
					fam = append(fam, g)
				}
			}
		}
		addFam(h)
		for _, sc := range hScopes {
			addFam(sc.Fn)
		}
		scopeOfFn := func(f *ssa.Function) Scope {
			for _, s2 := range hScopes {
				if s2.Fn == f {
					return s2
				}
			}
			return Scope{Fn: f, S: Subst{}}
		}
		lockArg := func(in ssa.Instruction) ssa.Value {
			return resolveCaptured(scopeOfFn(in.Parent()).S.resolve(stripConv(argN(in, 0))))
		}
		var acq, rel []ssa.Instruction
		for _, f := range fam {
			acq = append(acq, P.CallsIn(f, funcIs(V.LockAcquire))...)
			rel = append(rel, P.CallsIn(f, funcIs(V.LockRelease))...)
		}
		if len(acq) != 1 || len(rel) != 1 {
			R.Fail(id, name+"|one Acquire/Release pair", P.Pos(h.Pos()), "the handler locks its inode exactly once", fmt.Sprintf("%d Acquire, %d Release calls: journal operations run without (or with an unbalanced) inode lock", len(acq), len(rel)))
			continue
		}
		v := lockArg(acq[0])
		R.Check(lockArg(rel[0]) == v, id, name+"|releases the lock it took", P.Pos(rel[0].Pos()), "Release is applied to the same inode number as Acquire", "same value", "another inode's lock is released; this one stays locked for ever")
		// path by path (through the function literals the handler calls or hands down): the lock is released on
		// every path, and the journal is touched only while it is held
		followed := func(call *ssa.Call) bool {
			if f, _ := closureCallee(call); f != nil {
				return true
			}
			if hh := staticCallee(call); hh != nil && famSet[hh] && hh != h {
				return true // a private helper of the handler: the explorer walks into it
			}
			_, isP := call.Call.Value.(*ssa.Parameter)
			return isP
		}
		touchesJ := func(in ssa.Instruction) bool {
			for _, cal := range P.Callees(in) {
				if reachesJ(cal) {
					return true
				}
			}
			return false
		}
		px := NewPX()
		px.FollowHelpers = true
		heldAtReturn, outside := "", map[ssa.Instruction]bool{}
		px.OnCall = func(st *PXState, ci ssa.CallInstruction) {
			switch staticCallee(ci) {
			case V.LockAcquire:
				st.Flags["locked"] = true
				return
			case V.LockRelease: // (also as a deferred call, when the frame's defers run)
				st.Flags["locked"] = false
				return
			}
			call, ok := ci.(*ssa.Call)
			if !ok {
				return
			}
			if !followed(call) && touchesJ(call) && !st.Flags["locked"] {
				outside[call] = true
			}
		}
		px.OnReturn = func(st *PXState, fr *pxFrame, r *ssa.Return) {
			if st.Flags["locked"] {
				heldAtReturn = P.Pos(r.Pos())
			}
		}
		px.Run(h)
		if px.Exceeded {
			R.Undecided(id, name+"|Release on every path", P.Pos(acq[0].Pos()), "the paths of the handler can be enumerated", "path budget exceeded")
			continue
		}
		R.Check(heldAtReturn == "", id, name+"|Release on every path", P.Pos(acq[0].Pos()), "every path after Acquire reaches Release", "no explored path returns with the lock held", "a path returns with the inode locked (return at "+heldAtReturn+"): the file is blocked for ever")
		// v = fh2ino(args.<handle>)
		cl, _ := v.(*ssa.Call)
		fromArg := false
		if cl != nil && fh2ino != nil && staticCallee(cl) == fh2ino {
			if pm, _ := paramFieldPath(cl.Call.Args[0]); pm != nil {
				fromArg = true
			}
		}
		if mc, fl := fieldOfCallResult(v); mc != nil && fl == "Ino" && staticCallee(mc) != nil && staticCallee(mc).Name() == "MakeFh" {
			// fh2ino written out: MakeFh(<handle argument>).Ino
			if pm, _ := paramFieldPath(mc.Call.Args[0]); pm != nil {
				fromArg = true
			}
		}
		R.Check(fromArg, id, name+"|locks the inode the handle names", P.Pos(acq[0].Pos()), "the locked number is fh2ino(<handle argument>)", "value identity", "the lock taken is not the lock of the file operated on")
		// directly, or through a helper that turns validInum's answer into a status that is tested here; the Acquire may
		// sit in a local closure called after the test
		asc := Scope{Fn: h, S: Subst{}}
		for _, s2 := range hScopes {
			if s2.Fn == acq[0].Parent() {
				asc = s2
			}
		}
		g := guardedUp(hScopes, asc, acq[0].Block(), func(sub Subst) func(Cond) (bool, bool) {
			return func(cd Cond) (bool, bool) {
				if cd.Op != token.ILLEGAL {
					return false, false
				}
				vc, ok := cd.X.(*ssa.Call)
				if ok && staticCallee(vc) == valid && resolveCaptured(sub.resolve(stripConv(vc.Call.Args[0]))) == v {
					return true, true
				}
				return false, false
			}
		})
		R.Check(g, id, name+"|validInum before locking", P.Pos(acq[0].Pos()), "Acquire is dominated by validInum(inum) == true", "guard dominates", "an out-of-range or reserved inode number reaches the inode table / another file's data block")
		// journal operations only inside the critical section, on the same inum
		nj := 0
		for _, f := range fam {
			for _, b := range f.Blocks {
				for _, in := range b.Instrs {
					call, ok := in.(*ssa.Call)
					if !ok || followed(call) || !touchesJ(in) {
						continue
					}
					nj++
					R.Check(!outside[in], id, fmt.Sprintf("%s|journal op#%d inside the critical section", name, nj), P.Pos(in.Pos()), "the journal is read/written/committed only between Acquire and Release", "lock held on every explored path", "a read or write of the file happens outside its lock: concurrent requests interleave inside one operation")
					// same inum is passed down
					cc := callCommon(in)
					usesInum := false
					hasInumParam := false
					for _, a := range cc.Args {
						if bt := a.Type().String(); strings.HasSuffix(bt, "common.Inum") || strings.HasSuffix(bt, "uint64") {
							hasInumParam = true
							if resolveCaptured(a) == v {
								usesInum = true
							}
							// the operation sits in a function that is handed the number down (a helper, or a named
							// body called by a locking helper): the parameter stands for what the handler passed
							for _, s2 := range hScopes {
								if s2.Fn == f && resolveCaptured(s2.S.resolve(stripConv(a))) == v {
									usesInum = true
								}
							}
						}
					}
					if hasInumParam {
						R.Check(usesInum, id, fmt.Sprintf("%s|journal op#%d on the locked inode", name, nj), P.Pos(in.Pos()), "the helper operates on the inode number that is locked", "same value", "the operation runs on another inode than the one locked")
					}
				}
			}
		}
		if nj == 0 {
			R.Fail(id, name+"|journal ops", P.Pos(h.Pos()), "handler reaches the journal", "no journal-reaching call found")
		}
	}
	R.Check(nH >= 5, id, "simple|handlers that reach the journal", "?", "GETATTR, SETATTR, READ, WRITE, COMMIT reach the journal", fmt.Sprintf("%d handlers", nH), fmt.Sprintf("only %d handlers reach the journal", nH))
	// commit discipline in every simple function that commits
	// the commit point of a function: a CommitWait call, or a call of a helper that commits on every path
	always := P.NewAlways(callTo(V.JrnlCommitWait))
	for _, fn := range P.RepoFuncs("simple") {
		var pts []*ssa.Call
		for _, b := range fn.Blocks {
			for _, in := range b.Instrs {
				if cl, ok := in.(*ssa.Call); ok && always.Instr(in) {
					pts = append(pts, cl)
				}
			}
		}
		if len(pts) == 0 {
			continue
		}
		R.Analysed[FuncName(fn)] = true
		if len(pts) != 1 {
			R.Fail(id, FuncName(fn)+"|one commit", P.Pos(fn.Pos()), "one commit per request", fmt.Sprintf("%d commit points", len(pts)))
			continue
		}
		call := pts[0]
		if tup, ok := call.Type().(*types.Tuple); ok && tup.Len() == 0 && staticCallee(call) != V.JrnlCommitWait {
			continue // the helper reports through the reply it was given: judged inside the helper
		}
		if staticCallee(call) == V.JrnlCommitWait {
			w, isc := constBool(argN(call, 0))
			R.Check(isc && w, id, FuncName(fn)+"|CommitWait(true)", P.Pos(call.Pos()), "the commit waits for durability (constant true)", "constant true", "an acknowledged request may not be durable")
		}
		if fn.Name() == "Mkfs" || fn.Name() == "MakeNfs" {
			R.Check(len(refs(call)) > 0, id, FuncName(fn)+"|commit result used", P.Pos(call.Pos()), "the format commit's result is tested", "used", "mkfs failure ignored")
			continue
		}
		// a helper that hands the commit's result to its caller unchanged: the callers are judged
		passThrough, nRet := true, 0
		for _, b := range fn.Blocks {
			if r, ok := b.Instrs[len(b.Instrs)-1].(*ssa.Return); ok {
				nRet++
				carries := false
				for _, res := range r.Results {
					if stripConv(res) == ssa.Value(call) {
						carries = true // (possibly next to other results, e.g. the log that was opened)
					}
				}
				if !carries {
					passThrough = false
				}
			}
		}
		if passThrough && nRet > 0 && isPrivateHelper(fn) {
			R.PassNT(id, FuncName(fn)+"|status from commit", P.Pos(call.Pos()), "the commit result is returned unchanged to the callers (each judged at its call)", "pass-through helper")
			continue
		}
		nOK := 0
		if isNamedStatus(call.Type()) {
			// the helper already turned the commit result into a status: it must become the reply's
			for _, in := range refs(call) {
				if st, ok := in.(*ssa.Store); ok && st.Val == ssa.Value(call) && strings.HasSuffix(fieldPath(st.Addr), "Status") {
					nOK++
				}
				if _, ok := in.(*ssa.Return); ok {
					nOK++
				}
			}
		} else {
			// OK only on the true edge
			tEdge := boolEdge(fn, call, true)
			underTrue := func(b *ssa.BasicBlock) bool {
				for _, pb := range fn.Blocks {
					for _, s := range pb.Succs {
						if tEdge(pb, s) && len(s.Preds) == 1 && s.Dominates(b) {
							return true
						}
					}
				}
				return false
			}
			for _, b := range fn.Blocks {
				for _, in := range b.Instrs {
					switch x := in.(type) {
					case *ssa.Store:
						if !strings.HasSuffix(fieldPath(x.Addr), "Status") {
							continue
						}
						if k, isk := constInt(x.Val); isk && k == 0 {
							nOK++
							R.Check(underTrue(b), id, FuncName(fn)+"|OK only when the commit succeeded", P.Pos(in.Pos()), "NFS3_OK is stored only under CommitWait(true) == true", "dominated by the true edge", "success reported although the commit failed or did not happen")
						} else if phi, isPhi := stripConv(x.Val).(*ssa.Phi); isPhi {
							// "default then overwrite": the OK input of the merged status comes from the commit's true side
							for i, e := range phi.Edges {
								if k, isk := constInt(e); isk && k == 0 {
									nOK++
									pred := phi.Block().Preds[i]
									okEdge := underTrue(pred) || tEdge(pred, phi.Block())
									R.Check(okEdge, id, FuncName(fn)+"|OK only when the commit succeeded", P.Pos(in.Pos()), "the NFS3_OK input of the stored status comes from under CommitWait(true) == true", "merged on the true side", "success reported although the commit failed or did not happen")
								} else if !isk {
									nOK++
									R.Fail(id, FuncName(fn)+"|OK only when the commit succeeded", P.Pos(in.Pos()), "the status stored after the commit is built from constants", "an input of the merged status is not a constant")
								}
							}
						}
					case *ssa.Return:
						for _, res := range x.Results {
							if k, isk := constInt(res); isk && k == 0 && isNamedStatus(res.Type()) {
								nOK++
								R.Check(underTrue(b), id, FuncName(fn)+"|OK only when the commit succeeded", P.Pos(in.Pos()), "NFS3_OK is returned only under CommitWait(true) == true", "dominated by the true edge", "success reported although the commit failed or did not happen")
							}
						}
					}
				}
			}
		}
		if nOK == 0 {
			R.Fail(id, FuncName(fn)+"|status from commit", P.Pos(fn.Pos()), "the reply status follows the commit result", "no NFS3_OK store under the commit")
		}
		// a *_wp helper returning false leads to no commit
		for _, b := range fn.Blocks {
			for _, in := range b.Instrs {
				wc, ok := in.(*ssa.Call)
				if !ok || wc == call {
					continue
				}
				cal := staticCallee(wc)
				if cal == nil || !strings.HasSuffix(cal.Name(), "_wp") || cal.Signature.Results().Len() != 1 {
					continue
				}
				te := boolEdge(fn, wc, true)
				dom := false
				for _, pb := range fn.Blocks {
					for _, s := range pb.Succs {
						if te(pb, s) && len(s.Preds) == 1 && s.Dominates(call.Block()) {
							dom = true
						}
					}
				}
				R.Check(dom, id, FuncName(fn)+"|no commit after a refused step", P.Pos(call.Pos()), "the commit is dominated by the true result of "+cal.Name(), "dominated", "a refused request (hole, bad count, too large) is committed")
			}
		}
	}
	// who may touch the lock map in simple: only the handlers
	for _, f := range []*ssa.Function{V.LockAcquire, V.LockRelease} {
		for _, cs := range P.CallersOf(f) {
			if relPkg(cs.Caller) != "simple" {
				continue
			}
			var onlyHandlers func(f *ssa.Function, d int) bool
			onlyHandlers = func(f *ssa.Function, d int) bool {
				for f.Parent() != nil {
					f = f.Parent()
				}
				for _, h := range V.SimpleProcs {
					if h == f {
						return true
					}
				}
				// a private helper of package simple all of whose callers are (helpers of) handlers
				if d > 2 || !isPrivateHelper(f) || len(staticSites[f]) == 0 {
					return false
				}
				for _, site := range staticSites[f] {
					if !onlyHandlers(site.Parent(), d+1) {
						return false
					}
				}
				return true
			}
			isH := onlyHandlers(cs.Caller, 0)
			R.Check(isH, id, FuncName(cs.Caller)+"|lock map used by handlers only", P.Pos(cs.Instr.Pos()), "only the RPC handlers lock", "handler", "locking outside the handler skeleton")
		}
	}
}

func ruleS17_2(c *Ctx, id string) {
	P, R := c.P, c.R
	R.Rule(id, "bounds in the SimpleNFS data path: in Inode.Write count == len(data), !SumOverflows(offset,count), offset+count <= BlockSize and offset <= Size dominate the copy; in Inode.Read offset < Size and count <= Size-offset dominate the copy; Write records Size = offset+count; Read's eof is offset+count >= Size", 8)
	w := c.fn(id, "simple.(*Inode).Write")
	rd := c.fn(id, "simple.(*Inode).Read")
	sumOv := P.Func(jrnlPath + "/util.SumOverflows")
	if w == nil || rd == nil {
		return
	}
	R.Analysed[FuncName(w)] = true
	R.Analysed[FuncName(rd)] = true
	// the copy loop: store into / load from buffer.Data[...], in the function or in a private helper that is handed
	// the buffer's data; reported as the instruction of fn through which it runs
	findCopy := func(fn *ssa.Function, store bool) ssa.Instruction {
		for _, sc := range scopesOf(fn) {
			for _, b := range sc.Fn.Blocks {
				for _, in := range b.Instrs {
					var addr ssa.Value
					if store {
						if st, ok := in.(*ssa.Store); ok {
							addr = st.Addr
						}
					} else if u, ok := in.(*ssa.UnOp); ok && u.Op == token.MUL {
						addr = u.X
					}
					if ia, ok := addr.(*ssa.IndexAddr); ok {
						if n, fl, _, _ := loadedFieldS(ia.X, sc.S); n != nil && n.Obj().Name() == "Buf" && fl == "Data" {
							if sc.Via != nil {
								if sc.Via.Parent() != fn {
									continue
								}
								return sc.Via
							}
							return in
						}
					}
				}
			}
		}
		return nil
	}
	cp := findCopy(w, true)
	if cp == nil {
		R.Fail(id, "simple.Write|copy loop", P.Pos(w.Pos()), "Write copies into the journal buffer", "no store into buf.Data found")
	} else {
		offset, count, data := ssa.Value(w.Params[2]), ssa.Value(w.Params[3]), ssa.Value(w.Params[4])
		checks := []struct {
			name string
			m    CondMatcherX
		}{
			{"count == len(data)", func(sub Subst) func(Cond) (bool, bool) {
				is := func(v, want ssa.Value) bool { return sub.resolve(v) == want }
				isLenData := func(v ssa.Value) bool {
					cl, ok := sub.resolve(v).(*ssa.Call)
					if !ok {
						return false
					}
					bi, ok := cl.Call.Value.(*ssa.Builtin)
					return ok && bi.Name() == "len" && stripConv(cl.Call.Args[0]) == data
				}
				return func(cd Cond) (bool, bool) {
					if cd.X == nil || cd.Y == nil {
						return false, false
					}
					if (is(cd.X, count) && isLenData(cd.Y)) || (is(cd.Y, count) && isLenData(cd.X)) {
						if cd.Op == token.NEQ {
							return true, false
						}
						if cd.Op == token.EQL {
							return true, true
						}
					}
					return false, false
				}
			}},
			{"!SumOverflows(offset, count)", func(sub Subst) func(Cond) (bool, bool) {
				return func(cd Cond) (bool, bool) {
					if cd.Op != token.ILLEGAL {
						return false, false
					}
					cl, ok := cd.X.(*ssa.Call)
					if ok && staticCallee(cl) == sumOv && sub.resolve(cl.Call.Args[0]) == offset && sub.resolve(cl.Call.Args[1]) == count {
						return true, false
					}
					return false, false
				}
			}},
			{"offset+count <= BlockSize", func(sub Subst) func(Cond) (bool, bool) {
				isSum := func(v ssa.Value) bool {
					bo, ok := sub.resolve(v).(*ssa.BinOp)
					if !ok || bo.Op != token.ADD {
						return false
					}
					x, y := sub.resolve(bo.X), sub.resolve(bo.Y)
					return (x == offset && y == count) || (x == count && y == offset)
				}
				return func(cd Cond) (bool, bool) {
					if cd.X == nil || cd.Y == nil || !isSum(cd.X) {
						return false, false
					}
					k, isk := constInt(cd.Y)
					if !isk || k != 4096 {
						return false, false
					}
					if cd.Op == token.GTR {
						return true, false
					}
					if cd.Op == token.LEQ {
						return true, true
					}
					return false, false
				}
			}},
			{"offset <= Size", func(sub Subst) func(Cond) (bool, bool) {
				return func(cd Cond) (bool, bool) {
					if cd.X == nil || cd.Y == nil || sub.resolve(cd.X) != offset {
						return false, false
					}
					_, fl, _, _ := loadedFieldS(cd.Y, sub)
					if fl != "Size" {
						return false, false
					}
					if cd.Op == token.GTR {
						return true, false
					}
					if cd.Op == token.LEQ {
						return true, true
					}
					return false, false
				}
			}},
		}
		// the new size is where the write ended: Size = offset + count, stored only when that is beyond the old size
		for _, sc := range scopesOf(w) {
			for _, fw := range FieldWrites(sc.Fn) {
				if fw.Field != "Size" || fw.Type.Obj().Name() != "Inode" {
					continue
				}
				want1 := fmt.Sprintf("(+ param:%s param:%s)", w.Params[3].Name(), w.Params[2].Name())
				want2 := fmt.Sprintf("(+ param:%s param:%s)", w.Params[2].Name(), w.Params[3].Name())
				// the value may be a result of a private helper ("end, ok := writeExtent(...)"): what the helper returns
				// there, its constant "refused" answers aside
				form := ""
				for _, hv := range helperResultValues(fw.Val, sc.S, 0) {
					f := sym(&symCtx{recv: w.Params[0]}, hv.v, hv.sub, 0)
					if form == "" || (f != want1 && f != want2) {
						form = f
					}
				}
				R.Check(form == want1 || form == want2, id, "simple.Write|new size is offset+count", P.Pos(fw.Instr.Pos()), "the size recorded after a growing write is offset + count", form, "the size stored is "+form+": a write that straddles the old end makes the file longer than what was written (bytes nobody wrote become readable, holes in the phantom range are accepted)")
			}
		}
		for _, ck := range checks {
			R.Check(guardedByX(w, cp.Block(), ck.m, Subst{}, 0), id, "simple.Write|"+ck.name, P.Pos(cp.Pos()), "the copy into the data block is dominated by "+ck.name, "guard dominates", "without this bound a request writes outside the file's block, creates a hole, or indexes out of range")
		}
	}
	cr := findCopy(rd, false)
	if cr == nil {
		R.Fail(id, "simple.Read|copy loop", P.Pos(rd.Pos()), "Read copies from the journal buffer", "no load from buf.Data found")
	} else {
		offset := ssa.Value(rd.Params[2])
		g1 := guardedByX(rd, cr.Block(), func(sub Subst) func(Cond) (bool, bool) {
			return func(cd Cond) (bool, bool) {
				if cd.X == nil || cd.Y == nil || sub.resolve(cd.X) != offset {
					return false, false
				}
				_, fl, _, _ := loadedFieldS(cd.Y, sub)
				if fl != "Size" {
					return false, false
				}
				if cd.Op == token.GEQ {
					return true, false
				}
				if cd.Op == token.LSS {
					return true, true
				}
				return false, false
			}
		}, Subst{}, 0)
		R.Check(g1, id, "simple.Read|offset < Size", P.Pos(cr.Pos()), "the copy is dominated by offset < ip.Size", "guard dominates", "reads beyond the end index out of the block")
		// loop bound is a phi of (bytesToRead, Size-offset) selected by count > Size-offset (in Read or in a helper)
		clamp := false
		for _, sc := range scopesOf(rd) {
			for _, b := range sc.Fn.Blocks {
				for _, in := range b.Instrs {
					phi, ok := in.(*ssa.Phi)
					if !ok {
						continue
					}
					hasParam, hasDiff := false, false
					for _, e := range phi.Edges {
						if sc.S.resolve(e) == ssa.Value(rd.Params[3]) {
							hasParam = true
						}
						if bo, ok := stripConv(e).(*ssa.BinOp); ok && bo.Op == token.SUB && sc.S.resolve(bo.Y) == offset {
							if _, fl, _, _ := loadedFieldS(bo.X, sc.S); fl == "Size" {
								hasDiff = true
							}
						}
					}
					if hasParam && hasDiff && clampSelected(sc, phi, rd.Params[3], offset, rd.Params[0]) {
						clamp = true
					}
				}
			}
		}
		// end-of-file is told by where the read ended: offset + <bytes copied> >= Size (or the negation of <); the
		// computation may sit in a private helper that is handed the size and the offset
		{
			rdScopes := scopesOf(rd)
			clampPhis := map[ssa.Value]bool{}
			for _, sc := range rdScopes {
				for _, b := range sc.Fn.Blocks {
					for _, in := range b.Instrs {
						if phi, ok := in.(*ssa.Phi); ok && clampSelected(sc, phi, rd.Params[3], offset, rd.Params[0]) {
							clampPhis[phi] = true
						}
					}
				}
			}
			isEnd := func(v ssa.Value, sub Subst) bool { // offset + count (clamped)
				bo, ok := stripConv(v).(*ssa.BinOp)
				if !ok || bo.Op != token.ADD {
					return false
				}
				x, y := sub.resolve(stripConv(bo.X)), sub.resolve(stripConv(bo.Y))
				return (x == offset && clampPhis[y]) || (y == offset && clampPhis[x])
			}
			isSize := func(v ssa.Value, sub Subst) bool {
				_, fl, base, _ := loadedFieldS(sub.resolve(stripConv(v)), sub)
				return fl == "Size" && base != nil && sub.resolve(stripConv(base)) == ssa.Value(rd.Params[0])
			}
			var judge func(v ssa.Value, sub Subst, neg bool, d int) bool
			judge = func(v ssa.Value, sub Subst, neg bool, d int) bool {
				if d > 6 {
					return false
				}
				if pm, isP := v.(*ssa.Parameter); isP {
					if a, ok := sub[pm]; ok {
						v = a
					}
				}
				switch x := v.(type) {
				case *ssa.Const:
					bv, isb := constBool(x)
					return isb && bv != neg // a constant true: the "offset >= Size" early exit (checked by the bound)
				case *ssa.UnOp:
					if x.Op == token.NOT {
						return judge(x.X, sub, !neg, d+1)
					}
				case *ssa.Phi:
					for _, e := range x.Edges {
						if !judge(e, sub, neg, d+1) {
							return false
						}
					}
					return true
				case *ssa.BinOp:
					op, a, b := x.Op, x.X, x.Y
					if isSize(a, sub) && isEnd(b, sub) {
						op, a, b = flipOp(op), b, a
					}
					if !isEnd(a, sub) || !isSize(b, sub) {
						return false
					}
					if neg {
						op = negOp(op)
					}
					return op == token.GEQ
				case *ssa.Extract, *ssa.Call:
					// the flag is a result of a private helper: every value it returns there
					var cl *ssa.Call
					idx := 0
					if ex, ok := x.(*ssa.Extract); ok {
						cl, _ = ex.Tuple.(*ssa.Call)
						idx = ex.Index
					} else {
						cl, _ = x.(*ssa.Call)
					}
					if cl == nil {
						return false
					}
					h := staticCallee(cl)
					if h == nil || !IsRepoFunc(h) || !isPrivateHelper(h) || h.Blocks == nil {
						return false
					}
					hs := Subst{}
					for k, a := range sub {
						hs[k] = a
					}
					for i, pm := range h.Params {
						if i < len(cl.Call.Args) {
							hs[pm] = sub.resolve(cl.Call.Args[i])
						}
					}
					n := 0
					for _, hb := range h.Blocks {
						if r, ok := hb.Instrs[len(hb.Instrs)-1].(*ssa.Return); ok && idx < len(r.Results) {
							n++
							if !judge(r.Results[idx], hs, neg, d+1) {
								return false
							}
						}
					}
					return n > 0
				}
				return false
			}
			okEof, nE := true, 0
			for _, b := range rd.Blocks {
				if r, ok := b.Instrs[len(b.Instrs)-1].(*ssa.Return); ok && len(r.Results) == 2 {
					nE++
					if !judge(r.Results[1], Subst{}, false, 0) {
						okEof = false
					}
				}
			}
			R.Check(okEof && nE > 0 && len(clampPhis) > 0, id, "simple.Read|eof is offset+count >= Size", P.Pos(rd.Pos()), "the end-of-file flag is true exactly when the read reached the file's size: offset + <bytes copied> >= Size (or the constant true of the 'offset >= Size' exit)", "form of every returned flag", "the eof flag is computed from something else (e.g. whether the count was cut short): a read that ends exactly at the end of the file reports that more follows, or one that stops inside reports the end")
		}
		R.Check(clamp, id, "simple.Read|count clamped to Size-offset", P.Pos(cr.Pos()), "the number of bytes copied is min(count, Size-offset): the smaller one is chosen by comparing count with Size-offset", "clamp phi selected by count > Size-offset", "a large count reads beyond the file's size (other bytes of the block, or out of range)")
	}
}

func ruleS17_3(c *Ctx, id string) {
	P, R := c.P, c.R
	R.Rule(id, "SimpleNFS layout and limits: nInode() = INODEBLK; inode i's data block is LOGSIZE+1+i; the inode table is block LOGSIZE; validInum excludes 0, ROOTINUM and >= nInode(); FSINFO's Wtmax and Maxfilesize equal the block size enforced in Write", 5)
	cm := jrnlPath + "/common"
	logsize := constOfPkg(P, cm, "LOGSIZE")
	inodeblk := constOfPkg(P, cm, "INODEBLK")
	inodesz := constOfPkg(P, cm, "INODESZ")
	rootinum := constOfPkg(P, cm, "ROOTINUM")
	retConst := func(fn *ssa.Function) (int64, bool) {
		for _, b := range fn.Blocks {
			if r, ok := b.Instrs[len(b.Instrs)-1].(*ssa.Return); ok && len(r.Results) == 1 {
				return constIntDeep(r.Results[0])
			}
		}
		return 0, false
	}
	if f := c.fn(id, "simple.nInode"); f != nil {
		k, ok := retConst(f)
		R.Check(ok && k == inodeblk, id, "simple.nInode = INODEBLK", P.Pos(f.Pos()), fmt.Sprintf("the inode table is one block of %d inodes", inodeblk), "constant", fmt.Sprintf("nInode() = %d", k))
	}
	if f := c.fn(id, "simple.inum2Addr"); f != nil {
		okBlk, okMul := false, int64(1)
		for _, b := range f.Blocks {
			for _, in := range b.Instrs {
				if cl, ok := in.(*ssa.Call); ok && staticCallee(cl) != nil && staticCallee(cl).Name() == "MkAddr" {
					if k, isk := constIntDeep(cl.Call.Args[0]); isk && k == logsize {
						okBlk = true
					}
				}
				if bo, ok := in.(*ssa.BinOp); ok && bo.Op == token.MUL {
					if k, isk := constInt(bo.Y); isk {
						okMul *= k
					}
				}
			}
		}
		R.Check(okBlk && okMul == inodesz*8, id, "simple.inum2Addr", P.Pos(f.Pos()), "inode i is at block LOGSIZE, bit offset i*INODESZ*8", "constants agree", "inode table address drift")
	}
	if f := c.fn(id, "simple.inodeInit"); f != nil {
		ok := false
		for _, w := range FieldWrites(f) {
			if w.Field == "Data" {
				// LOGSIZE + 1 + i  => (const LOGSIZE+1) + i
				if bo, isB := stripConv(w.Val).(*ssa.BinOp); isB && bo.Op == token.ADD {
					kx, iskx := constIntDeep(bo.X)
					ky, isky := constIntDeep(bo.Y)
					if (iskx && kx == logsize+1) || (isky && ky == logsize+1) {
						ok = true
					}
				}
			}
		}
		R.Check(ok, id, "simple.inodeInit|data block of inode i", P.Pos(f.Pos()), "ip.Data = LOGSIZE + 1 + i: every inode has its own block after the inode table", "constant", "two files share a data block or overlap the inode table")
	}
	if f := c.fn(id, "simple.validInum"); f != nil && len(f.Params) == 1 {
		// "valid" is answered only along inum != 0, inum != ROOTINUM and inum < nInode(), whatever the spelling
		// (three ifs, one && expression, a switch)
		inum := ssa.Value(f.Params[0])
		isN := func(v ssa.Value) bool {
			cl, ok := stripConv(v).(*ssa.Call)
			return ok && staticCallee(cl) != nil && staticCallee(cl).Name() == "nInode"
		}
		// classify a comparison: which of the three requirements does its true side establish (0,1,2), or its false side
		classify := func(op token.Token, x, y ssa.Value) (int, bool, bool) {
			if stripConv(y) == inum && stripConv(x) != inum {
				op, x, y = flipOp(op), y, x
			}
			if stripConv(x) != inum {
				return -1, false, false
			}
			if k, isk := constIntDeep(y); isk && (k == 0 || k == rootinum) {
				which := 0
				if k == rootinum {
					which = 1
				}
				switch op {
				case token.NEQ:
					return which, true, true
				case token.EQL:
					return which, false, true
				}
			}
			if isN(y) {
				switch op {
				case token.LSS:
					return 2, true, true
				case token.GEQ:
					return 2, false, true
				}
			}
			return -1, false, false
		}
		cuts := make([]func(from, to *ssa.BasicBlock) bool, 3)
		for k := 0; k < 3; k++ {
			k := k
			cuts[k] = condEdge(f, func(cd Cond) (bool, bool) {
				if cd.X == nil || cd.Y == nil {
					return false, false
				}
				w, pol, ok := classify(cd.Op, cd.X, cd.Y)
				if !ok || w != k {
					return false, false
				}
				return true, pol
			})
		}
		okAll, n := true, 0
		var need func(v ssa.Value, at *ssa.BasicBlock, via *ssa.BasicBlock, d int)
		need = func(v ssa.Value, at *ssa.BasicBlock, via *ssa.BasicBlock, d int) {
			if d > 6 {
				okAll = false
				return
			}
			established := func(k int) bool {
				if everyPathTakes(f, at, cuts[k]) {
					return true
				}
				return via != nil && cuts[k](at, via)
			}
			if bv, isb := constBool(v); isb {
				if !bv {
					return
				}
				n++
				for k := 0; k < 3; k++ {
					if !established(k) {
						okAll = false
					}
				}
				return
			}
			negd := false
			for {
				if u, isU := v.(*ssa.UnOp); isU && u.Op == token.NOT {
					v, negd = u.X, !negd
					continue
				}
				break
			}
			if bo, ok := v.(*ssa.BinOp); ok {
				bop := bo.Op
				if negd {
					bop = negOp(bop) // !(inum >= nInode()) is inum < nInode()
				}
				if w, pol, ok2 := classify(bop, bo.X, bo.Y); ok2 && pol {
					n++
					for k := 0; k < 3; k++ {
						if k != w && !established(k) {
							okAll = false
						}
					}
					return
				}
			}
			if phi, ok := v.(*ssa.Phi); ok {
				for i, e := range phi.Edges {
					need(e, phi.Block().Preds[i], phi.Block(), d+1)
				}
				return
			}
			okAll = false
		}
		for _, b := range f.Blocks {
			if r, isR := b.Instrs[len(b.Instrs)-1].(*ssa.Return); isR && len(r.Results) == 1 {
				need(r.Results[0], b, nil, 0)
			}
		}
		R.Check(okAll && n > 0, id, "simple.validInum", P.Pos(f.Pos()), "answers true only when inum != 0, inum != ROOTINUM and inum < nInode() all hold", "every true answer lies behind the three accepting edges", "a reserved or out-of-range inode number is accepted")
	}
	if f := c.fn(id, "simple.(*Nfs).NFSPROC3_FSINFO"); f != nil {
		vals := map[string]int64{}
		for _, b := range f.Blocks {
			for _, in := range b.Instrs {
				if st, ok := in.(*ssa.Store); ok {
					p := fieldPath(st.Addr)
					if strings.HasSuffix(p, "Wtmax") || strings.HasSuffix(p, "Maxfilesize") {
						k, _ := constIntDeep(st.Val)
						vals[p[strings.LastIndex(p, ".")+1:]] = k
					}
				}
			}
		}
		R.Check(vals["Wtmax"] == 4096 && vals["Maxfilesize"] == 4096, id, "simple.FSINFO limits", P.Pos(f.Pos()), "advertised wtmax and maxfilesize equal the 4096-byte block enforced by Write", "constants agree", fmt.Sprintf("advertised %v", vals))
	}
}

func constIntDeep(v ssa.Value) (int64, bool) {
	return constInt(stripConv(v))
}

// ruleS17_4: SimpleNFS never clears a block when a file shrinks, so the only
// thing that keeps cut-off bytes from coming back is that a file grows only by
// writing data over the new range; and the one-block-per-inode initialisation,
// which runs at every start of the server, must keep what the inodes hold.
func ruleS17_4(c *Ctx, id string) {
	P, R := c.P, c.R
	R.Rule(id, "sizes change only in ways that keep the bytes right: Inode.Size grows only in Inode.Write (after the copy) and in Decode; every other store to Size is dominated by 'new size <= current size'; inodeInit (run at every start) rewrites an inode it has read and changes only its data-block pointer", 3)
	ino := P.Named("simple", "Inode")
	w := c.fn(id, "simple.(*Inode).Write")
	dec := c.fn(id, "simple.Decode")
	read := c.fn(id, "simple.ReadInode")
	init := c.fn(id, "simple.inodeInit")
	wi := c.fn(id, "simple.(*Inode).WriteInode")
	if ino == nil || w == nil || dec == nil || read == nil || init == nil || wi == nil {
		return
	}
	for _, fn := range P.RepoFuncs("simple") {
		for _, fw := range FieldWrites(fn) {
			if fw.Type != ino || fw.Field != "Size" {
				continue
			}
			R.Analysed[FuncName(fn)] = true
			if fn == w || fn == dec {
				R.Pass(id, FuncName(fn)+"|writes Size", P.Pos(fw.Instr.Pos()), "growth through the data path / decoding", "Write and Decode")
				continue
			}
			val, base := stripConv(fw.Val), stripConv(fw.Base)
			g := guardedBy(fn, fw.Instr.Block(), func(cd Cond) (bool, bool) {
				op, a, b := cd.Op, cd.X, cd.Y
				if a == nil || b == nil {
					return false, false
				}
				isCur := func(v ssa.Value) bool {
					n, fl, bs, _ := loadedField(v)
					return n == ino && fl == "Size" && bs == base
				}
				if isCur(b) && stripConv(a) == val {
					op, a, b = flipOp(op), b, a
				}
				if !isCur(a) || stripConv(b) != val {
					return false, false
				}
				// normalised: Size op newsize
				switch op {
				case token.LSS: // Size < new  -> the shrink side is the false edge
					return true, false
				case token.GEQ:
					return true, true
				}
				return false, false
			})
			R.Check(g, id, FuncName(fn)+"|Size only lowered outside the data path", P.Pos(fw.Instr.Pos()), "a store to Size outside Inode.Write is dominated by new size <= current size", "guarded", "the file can grow without its new range being written: bytes cut off by an earlier shrink (never cleared) read back instead of zeros")
		}
	}
	// inodeInit
	R.Analysed[FuncName(init)] = true
	okRead, n := true, 0
	for _, call := range P.CallsIn(init, funcIs(wi)) {
		n++
		from := false
		for v := range bwdSources(recvOf(call)) {
			if cl, ok := v.(*ssa.Call); ok && staticCallee(cl) == read {
				from = true
			}
		}
		if !from {
			okRead = false
		}
	}
	onlyData := true
	for _, fw := range FieldWrites(init) {
		if fw.Type == ino && fw.Field != "Data" {
			onlyData = false
		}
	}
	// ... and reaches every inode a handle can name: its loop runs over [a, B) with a <= the smallest number
	// validInum accepts and B the bound above which validInum refuses (block 0 - the Data of an inode that was
	// never initialised - is the header of the write-ahead log)
	if vi := c.fn(id, "simple.validInum"); vi != nil {
		upper := ""
		// (the comparison may be the condition of an if or part of a boolean expression that is returned)
		type cmp3 struct {
			Op   token.Token
			X, Y ssa.Value
		}
		var cmps []cmp3
		for _, b := range vi.Blocks {
			for _, in := range b.Instrs {
				if bo, ok := in.(*ssa.BinOp); ok {
					cmps = append(cmps, cmp3{bo.Op, bo.X, bo.Y})
				}
			}
		}
		for _, br := range cmps {
			op, x, y := br.Op, stripConv(br.X), stripConv(br.Y)
			if _, isP := y.(*ssa.Parameter); isP {
				op, x, y = flipOp(op), y, x
			}
			if _, isP := x.(*ssa.Parameter); !isP {
				continue
			}
			if _, isK := constInt(y); isK {
				continue
			}
			// inum >= U refuses (true side returns false) / inum < U goes on
			if op == token.GEQ || op == token.LSS {
				upper = sym(&symCtx{}, y, Subst{}, 0)
			}
		}
		lv := findLoopVar(init, 1)
		okCover, why := false, "no counter stepped by one in inodeInit"
		if lv != nil && lv.phi != nil && upper != "" {
			adv, nb := lv.alwaysAdvances()
			initOK := false
			for i, e := range lv.phi.Edges {
				if !lv.phi.Block().Dominates(lv.phi.Block().Preds[i]) {
					k, isk := constInt(stripConv(e))
					initOK = isk && k <= 2
				}
			}
			bound := ""
			polOK := true
			for _, br := range branches(init) {
				if br.Cond.X == nil || br.Cond.Y == nil {
					continue
				}
				op, x, y := br.Cond.Op, stripConv(br.Cond.X), stripConv(br.Cond.Y)
				if lv.is(y) {
					op, x, y = flipOp(op), y, x
				}
				if lv.is(x) && (op == token.LSS || op == token.GEQ) {
					bound = sym(&symCtx{}, y, Subst{}, 0)
					// the body (what writes the inode) lies on the side where the counter is below the bound
					cont := br.True
					if op == token.GEQ {
						cont = br.False
					}
					for _, b2 := range init.Blocks {
						for _, in2 := range b2.Instrs {
							if g := staticCallee(in2); g != nil && g.Name() == "WriteInode" {
								if !(cont == b2 || cont.Dominates(b2)) {
									polOK = false
								}
							}
						}
					}
				}
			}
			okCover = adv && nb > 0 && initOK && bound == upper && polOK
			if !polOK {
				bound += " (the loop test is the wrong way round: the body does not run)"
			}
			why = fmt.Sprintf("loop bound %s, validInum accepts numbers below %s, starts low enough=%v, advances=%v", bound, upper, initOK, adv && nb > 0)
		} else if upper == "" {
			why = "upper bound of validInum not found"
		}
		R.Check(okCover, id, "simple.inodeInit|reaches every inode a handle can name", P.Pos(init.Pos()), "inodeInit's loop covers every inode number validInum accepts", "same upper bound, start <= 2, step 1", why+": an inode that is never given its data block keeps Data = 0, the header block of the write-ahead log - writes to that file are lost and recovery reads client bytes as a log header")
	}
	R.Check(okRead && onlyData && n > 0, id, "simple.inodeInit|keeps what the inodes hold", P.Pos(init.Pos()), "inodeInit writes back inodes obtained from ReadInode and stores only their Data field", fmt.Sprintf("%d WriteInode calls on inodes that were read; only Data assigned", n), "MakeNfs runs inodeInit on every start: building the inodes afresh resets every file's size, acknowledged writes do not survive a restart")
}

// clampSelected: the phi (count, Size-offset) of scope sc takes its Size-offset
// edge exactly under a comparison of count with that same difference (count >
// Size-offset, or a mirrored/negated form), and its count edge otherwise.
func clampSelected(sc Scope, phi *ssa.Phi, count, offset, recv ssa.Value) bool {
	ctx := &symCtx{recv: recv}
	fn := sc.Fn
	pb := phi.Block()
	for _, b := range fn.Blocks {
		ifi, ok := b.Instrs[len(b.Instrs)-1].(*ssa.If)
		if !ok {
			continue
		}
		bo, ok := ifi.Cond.(*ssa.BinOp)
		if !ok {
			continue
		}
		var other ssa.Value
		op := bo.Op
		if sc.S.resolve(bo.X) == count {
			other = bo.Y
		} else if sc.S.resolve(bo.Y) == count {
			other = bo.X
			switch op { // mirror
			case token.GTR:
				op = token.LSS
			case token.GEQ:
				op = token.LEQ
			case token.LSS:
				op = token.GTR
			case token.LEQ:
				op = token.GEQ
			}
		} else {
			continue
		}
		var diffSucc, cntSucc *ssa.BasicBlock
		switch op {
		case token.GTR, token.GEQ: // count > d: take d
			diffSucc, cntSucc = b.Succs[0], b.Succs[1]
		case token.LSS, token.LEQ: // count < d: keep count
			diffSucc, cntSucc = b.Succs[1], b.Succs[0]
		default:
			continue
		}
		want := sym(ctx, other, sc.S, 0)
		okAll := true
		for i, e := range phi.Edges {
			pred := pb.Preds[i]
			from := func(succ *ssa.BasicBlock) bool {
				// the edge comes from the side succ of the test
				if succ == pb {
					return pred == b
				}
				return len(succ.Preds) == 1 && succ.Dominates(pred)
			}
			isDiff := false
			if d, ok := stripConv(sc.S.resolve(e)).(*ssa.BinOp); ok && d.Op == token.SUB {
				isDiff = sym(ctx, e, sc.S, 0) == want
			}
			switch {
			case sc.S.resolve(e) == count:
				if !from(cntSucc) {
					okAll = false
				}
			case isDiff:
				if !from(diffSucc) {
					okAll = false
				}
			default:
				okAll = false
			}
		}
		if okAll {
			return true
		}
	}
	return false
}

// ruleS17_5: the only mutual exclusion in SimpleNFS is the lock of one inode
// number.  It protects a transaction's read-modify-write only if every journal
// object the transaction reads or writes belongs to that inode alone: its
// 128-byte slot of the inode block, or its own data block.  A larger object
// (the whole inode block) is shared by all files: two transactions on different
// files each commit their private copy and the later one reverts the other.
func ruleS17_5(c *Ctx, id string) {
	V, P, R := c.V, c.P, c.R
	R.Rule(id, "every journal object a SimpleNFS request reads or writes belongs to one inode: INODESZ*8 bits at MkAddr(LOGSIZE, inum*INODESZ*8), or the whole block MkAddr(ip.Data, 0); nothing wider is read for update or marked dirty", 4)
	const logsize, inodesz, nbit = 513, 128, 32768
	n := 0
	for _, fn := range P.RepoFuncs("simple") {
		if fn.Blocks == nil {
			continue
		}
		for _, call := range P.CallsIn(fn, funcIs(V.ReadBuf, V.OverWrite)) {
			n++
			R.Analysed[FuncName(fn)] = true
			ctx := &symCtx{}
			a := sym(ctx, argN(call, 0), Subst{}, 0)
			sz, szOK := constInt(argN(call, 1))
			key := FuncName(fn) + "|" + staticCallee(call).Name() + " of an object of one inode"
			okObj := false
			form := "unknown"
			mk := "call:" + strings.TrimPrefix(jrnlPath, modPath+"/") + "/addr.MkAddr("
			if strings.HasPrefix(a, mk) && strings.HasSuffix(a, ")") {
				args := splitArgs(a[len(mk) : len(a)-1])
				if len(args) == 2 {
					switch {
					case args[0] == fmt.Sprint(logsize) && strings.HasPrefix(args[1], fmt.Sprintf("(* %d ", inodesz*8)) && szOK && sz == inodesz*8:
						okObj, form = true, "inode slot"
					case strings.HasPrefix(args[0], "field(") && strings.HasSuffix(args[0], ".Data)") && args[1] == "0" && szOK && sz == nbit:
						okObj, form = true, "data block"
					default:
						form = a
					}
				}
			} else {
				form = a
			}
			R.Check(okObj, id, key, P.Pos(call.Pos()), "the object is the 128-byte slot of one inode or that inode's data block", form, fmt.Sprintf("the journal object %s (size %d bits) is not private to one inode: the inode lock does not protect it, and concurrent requests on different files overwrite each other's committed update", form, sz))
		}
	}
	if n == 0 {
		R.Fail(id, "simple|journal accesses", "", "SimpleNFS reads and writes through jrnl.Op", "no ReadBuf/OverWrite found in package simple")
	}
}

// splitArgs splits a rendered argument list at top-level commas.
func splitArgs(s string) []string {
	var out []string
	depth, start := 0, 0
	for i, ch := range s {
		switch ch {
		case '(':
			depth++
		case ')':
			depth--
		case ',':
			if depth == 0 {
				out = append(out, s[start:i])
				start = i + 1
			}
		}
	}
	return append(out, s[start:])
}

// lexicalFamily: fn and the function literals written inside it.
func lexicalFamily(fn *ssa.Function) []*ssa.Function {
	out := []*ssa.Function{fn}
	for _, a := range fn.AnonFuncs {
		out = append(out, lexicalFamily(a)...)
	}
	return out
}

// resolveCaptured: v with conversions and single-assignment cells removed,
// and, inside a function literal, a captured variable replaced by the value
// the enclosing function stored in it.
func resolveCaptured(v ssa.Value) ssa.Value {
	for i := 0; i < 6; i++ {
		v = stripConv(v)
		ld, ok := v.(*ssa.UnOp)
		if !ok || ld.Op != token.MUL {
			return v
		}
		fv, ok := ld.X.(*ssa.FreeVar)
		if !ok {
			return v
		}
		f := fv.Parent()
		idx := -1
		for j, q := range f.FreeVars {
			if q == fv {
				idx = j
			}
		}
		par := f.Parent()
		if idx < 0 || par == nil {
			return v
		}
		var bind ssa.Value
		for _, b := range par.Blocks {
			for _, in := range b.Instrs {
				if mc, ok := in.(*ssa.MakeClosure); ok && mc.Fn == ssa.Value(f) && idx < len(mc.Bindings) {
					bind = mc.Bindings[idx]
				}
			}
		}
		switch x := bind.(type) {
		case *ssa.Alloc:
			st := singleStore(x)
			if st == nil {
				return v
			}
			v = st
		default:
			return v
		}
	}
	return v
}

type subVal struct {
	v   ssa.Value
	sub Subst
}

// helperResultValues: v itself, or - when v is a result of a private helper -
// the non-constant values the helper returns at that position (each with the
// helper's parameters bound to the call's arguments).
func helperResultValues(v ssa.Value, sub Subst, d int) []subVal {
	x := stripConv(v)
	var cl *ssa.Call
	idx := 0
	switch y := x.(type) {
	case *ssa.Extract:
		cl, _ = y.Tuple.(*ssa.Call)
		idx = y.Index
	case *ssa.Call:
		cl = y
	}
	if cl == nil || d > 2 {
		return []subVal{{v, sub}}
	}
	h := staticCallee(cl)
	if h == nil || !IsRepoFunc(h) || !isPrivateHelper(h) || h.Blocks == nil {
		return []subVal{{v, sub}}
	}
	hs := Subst{}
	for k, a := range sub {
		hs[k] = a
	}
	for i, pm := range h.Params {
		if i < len(cl.Call.Args) {
			hs[pm] = sub.resolve(cl.Call.Args[i])
		}
	}
	var out []subVal
	for _, b := range h.Blocks {
		if r, ok := b.Instrs[len(b.Instrs)-1].(*ssa.Return); ok && idx < len(r.Results) {
			if _, isC := r.Results[idx].(*ssa.Const); isC {
				continue
			}
			out = append(out, helperResultValues(r.Results[idx], hs, d+1)...)
		}
	}
	if len(out) == 0 {
		return []subVal{{v, sub}}
	}
	return out
}

// ruleS17_6: SimpleNFS' own codecs (the part of C10.W3 that is about package
// simple): the handle and the inode are decoded with the widths and in the
// order they were encoded, and fit their slots.  A handle decoded narrower than
// it was encoded lets a forged number that differs from a file's by 2^32 pass
// validInum as that file.
func ruleS17_6(c *Ctx, id string) {
	P := c.P
	c.R.Rule(id, "SimpleNFS codecs are inverse: simple.Inode Encode/Decode (128-byte slot) and the handle codec MakeFh3/MakeFh (16 bytes) perform the same (kind, width, field) sequence", 4)
	inodesz := int64(-1)
	if cp := P.Pkg(jrnlPath + "/common"); cp != nil {
		if o := cp.Types.Scope().Lookup("INODESZ"); o != nil {
			inodesz, _ = constValInt(o)
		}
	}
	compareCodec(c, id, "simple.Inode", c.fn(id, "simple.(*Inode).Encode"), c.fn(id, "simple.Decode"), inodesz, true)
	compareCodec(c, id, "simple.Fh", c.fn(id, "simple.(Fh).MakeFh3"), c.fn(id, "simple.MakeFh"), 16, true)
}

// ruleS17_7: SimpleNFS announces maxfilesize = one block and Inode.Write
// accepts offset+count <= BlockSize.  SETATTR has a size test of its own (it
// allocates newsize-Size bytes before Write is asked): the largest size that
// test lets through must be the announced one, or SETATTR refuses a size WRITE
// reaches and FSINFO announces (or, the other way, lets through what Write
// refuses).
func ruleS17_7(c *Ctx, id string) {
	P, R := c.P, c.R
	R.Rule(id, "the size limits of SimpleNFS agree: the largest size SETATTR's own test accepts is the maxfilesize FSINFO announces (one block, the bound of Inode.Write)", 1)
	h := c.fn(id, "simple.(*Nfs).NFSPROC3_SETATTR")
	fi := c.fn(id, "simple.(*Nfs).NFSPROC3_FSINFO")
	if h == nil || fi == nil {
		return
	}
	var maxfs int64 = -1
	for _, b := range fi.Blocks {
		for _, in := range b.Instrs {
			if st, ok := in.(*ssa.Store); ok && strings.HasSuffix(fieldPath(st.Addr), "Maxfilesize") {
				maxfs, _ = constIntDeep(st.Val)
			}
		}
	}
	isReqSize := func(sc Scope, v ssa.Value) bool {
		v = sc.S.resolve(stripConv(v))
		u, ok := v.(*ssa.UnOp)
		if !ok || u.Op != token.MUL {
			return false
		}
		return strings.HasSuffix(fieldPath(u.X), "New_attributes.Size.Size")
	}
	n := 0
	// the handler and the functions of package simple it reaches (the request is handed on by value)
	var scopes []Scope
	seenFn := map[*ssa.Function]bool{}
	var visit func(f *ssa.Function, d int)
	visit = func(f *ssa.Function, d int) {
		if f == nil || seenFn[f] || d > 4 || f.Blocks == nil || funcPkg(f) == nil || funcPkg(f) != funcPkg(h) {
			return
		}
		seenFn[f] = true
		for _, sc := range scopesOf(f) {
			scopes = append(scopes, sc)
			for _, b := range sc.Fn.Blocks {
				for _, in := range b.Instrs {
					if _, ok := in.(ssa.CallInstruction); ok {
						visit(staticCallee(in), d+1)
					}
				}
			}
		}
	}
	visit(h, 0)
	for _, sc := range scopes {
		for _, b := range sc.Fn.Blocks {
			for _, in := range b.Instrs {
				bo, ok := in.(*ssa.BinOp)
				if !ok {
					continue
				}
				op, x, y := bo.Op, bo.X, bo.Y
				if _, isk := constIntDeep(x); isk {
					x, y, op = y, x, flipOp(op)
				}
				k, isk := constIntDeep(sc.S.resolve(y))
				if !isk || !isReqSize(sc, x) {
					continue
				}
				// which edge refuses?  the one whose block stores a failing status
				iff, isIf := b.Instrs[len(b.Instrs)-1].(*ssa.If)
				if !isIf || iff.Cond != ssa.Value(bo) {
					continue
				}
				// the refusing edge is the one from which the work of SETATTR (a write of the file or of its size)
				// cannot be reached any more
				refuses := func(blk *ssa.BasicBlock) bool {
					seenB := map[*ssa.BasicBlock]bool{}
					work := []*ssa.BasicBlock{blk}
					for len(work) > 0 {
						x := work[len(work)-1]
						work = work[:len(work)-1]
						if seenB[x] {
							continue
						}
						seenB[x] = true
						for _, i2 := range x.Instrs {
							if st, ok := i2.(*ssa.Store); ok && strings.HasSuffix(fieldPath(st.Addr), "Size") && !strings.Contains(fieldPath(st.Addr), "New_attributes") {
								if nm, _, _ := FieldOf(st.Addr); nm != nil && nm.Obj().Name() == "Inode" {
									return false
								}
							}
							if cl, ok := i2.(*ssa.Call); ok {
								if g := staticCallee(cl); g != nil && (g.Name() == "Write" || g.Name() == "WriteInode") && funcPkg(g) == funcPkg(h) {
									return false
								}
							}
						}
						work = append(work, x.Succs...)
					}
					return true
				}
				var max int64
				var decided bool
				switch {
				case refuses(b.Succs[0]) && !refuses(b.Succs[1]):
					max, decided = acceptedMax(op, k)
				case refuses(b.Succs[1]) && !refuses(b.Succs[0]):
					max, decided = acceptedMax(negOp(op), k)
				}
				n++
				R.Analysed[FuncName(sc.Fn)] = true
				key := fmt.Sprintf("simple.SETATTR|size test#%d accepts up to maxfilesize", n)
				if !decided {
					R.Undecided(id, key, P.Pos(in.Pos()), "the test of the requested size against a constant refuses on one edge", fmt.Sprintf("size %s %d: the refusing edge or the operator was not recognised", op, k))
					continue
				}
				R.Check(max == maxfs, id, key, P.Pos(in.Pos()), fmt.Sprintf("SETATTR accepts sizes up to %d, the announced maxfilesize", maxfs), fmt.Sprintf("refuses size %s %d", op, k), fmt.Sprintf("SETATTR's own test accepts sizes up to %d but FSINFO announces (and Inode.Write accepts) %d: a size between the two is refused by one procedure and reached by the other", max, maxfs))
			}
		}
	}
}

// ruleS17_8: NFS3_OK is the zero value of the status: a reply whose Status
// nobody stored says "done".  Every return of a SimpleNFS procedure must have a
// store to the reply's Status on its path (its own, or that of a function it
// hands the reply to which stores on all its paths); and a helper that answers
// "false" (do not commit) has stored a failing status on that path - otherwise
// a refused, unsupported or failed request is acknowledged as a success.
func ruleS17_8(c *Ctx, id string) {
	P, R := c.P, c.R
	R.Rule(id, "no SimpleNFS reply says OK by default: every return of a procedure is preceded by a store to the reply's Status; every 'false' answer of a helper that is handed the reply is preceded by a store of a failing status", 20)
	isStatusStore := func(in ssa.Instruction) bool {
		st, ok := in.(*ssa.Store)
		if !ok {
			return false
		}
		p := fieldPath(st.Addr)
		return p == "Status" || strings.HasSuffix(p, ".Status") || p == "Fhs_status"
	}
	isFailStore := func(in ssa.Instruction) bool {
		st, ok := in.(*ssa.Store)
		if !ok || !isStatusStore(in) {
			return false
		}
		if k, isk := constIntDeep(st.Val); isk {
			return k != 0
		}
		// the status handed in by the callers of a helper ("refuse(reply, why)"): failing when every caller passes
		// a failing constant
		if pm, isPm := stripConv(st.Val).(*ssa.Parameter); isPm {
			fn := pm.Parent()
			idx := -1
			for i, q := range fn.Params {
				if q == pm {
					idx = i
				}
			}
			cs := P.CallersOf(fn)
			if idx < 0 || len(cs) == 0 {
				return false
			}
			for _, c2 := range cs {
				fa := fullArgs(c2.Instr)
				if idx >= len(fa) {
					return false
				}
				if k, isk := constIntDeep(fa[idx]); !isk || k == 0 {
					return false
				}
			}
			return true
		}
		return false
	}
	// "stored" at every return: a forward must-analysis over the blocks.  A block stores when it holds a store
	// to a Status, or a call of a function that stores at all its returns; the 'false' side of a helper that is
	// handed the reply stores too (the second clause checks that helper).
	takesReplyBool := func(g *ssa.Function) bool {
		if g == nil || g.Signature.Results().Len() != 1 {
			return false
		}
		bt, isB := g.Signature.Results().At(0).Type().Underlying().(*types.Basic)
		if !isB || bt.Kind() != types.Bool {
			return false
		}
		for _, p := range g.Params {
			if n := derefNamed(p.Type()); n != nil && strings.HasSuffix(n.Obj().Name(), "3res") {
				return true
			}
		}
		return false
	}
	memo := map[*ssa.Function]int{} // 1 in progress, 2 yes, 3 no
	var storedAtReturns func(fn *ssa.Function) (bool, []*ssa.Return)
	var allReturnsStore func(fn *ssa.Function) bool
	storedAtReturns = func(fn *ssa.Function) (bool, []*ssa.Return) {
		in := map[*ssa.BasicBlock]bool{}
		out := map[*ssa.BasicBlock]bool{}
		for _, b := range fn.Blocks {
			in[b], out[b] = true, true
		}
		in[fn.Blocks[0]] = false
		blockStores := func(b *ssa.BasicBlock) bool {
			for _, x := range b.Instrs {
				if isStatusStore(x) {
					return true
				}
				if cl, isC := x.(*ssa.Call); isC {
					g := staticCallee(x)
					if g != nil && IsRepoFunc(g) && g.Blocks != nil && !takesReplyBool(g) && allReturnsStore(g) {
						return true
					}
					// a function literal handed to a helper that runs it on all its paths ("with the lock held, do ...")
					if g != nil && IsRepoFunc(g) && g.Blocks != nil {
						fa := fullArgs(cl)
						for i, a := range fa {
							mc, isMC := a.(*ssa.MakeClosure)
							if !isMC || i >= len(g.Params) {
								continue
							}
							lit, _ := mc.Fn.(*ssa.Function)
							if lit == nil || lit.Blocks == nil || !allReturnsStore(lit) {
								continue
							}
							pm := g.Params[i]
							callsIt := func(y ssa.Instruction) bool {
								cc := callCommon(y)
								return cc != nil && !cc.IsInvoke() && stripConv(cc.Value) == ssa.Value(pm)
							}
							e0 := g.Blocks[0].Instrs[0]
							if callsIt(e0) || MustAfter(g, callsIt, nil)(e0) {
								return true
							}
						}
					}
				}
			}
			return false
		}
		edgeStores := func(from, to *ssa.BasicBlock) bool {
			iff, ok := from.Instrs[len(from.Instrs)-1].(*ssa.If)
			if !ok || from.Succs[0] == from.Succs[1] {
				return false
			}
			cond, neg := iff.Cond, false
			for {
				if u, isU := cond.(*ssa.UnOp); isU && u.Op == token.NOT {
					cond, neg = u.X, !neg
					continue
				}
				break
			}
			cl, isC := cond.(*ssa.Call)
			if !isC || !takesReplyBool(staticCallee(cl)) {
				return false
			}
			falseSucc := from.Succs[1]
			if neg {
				falseSucc = from.Succs[0]
			}
			return to == falseSucc
		}
		for changed := true; changed; {
			changed = false
			for _, b := range fn.Blocks {
				v := b != fn.Blocks[0]
				if b == fn.Blocks[0] {
					v = false
				} else {
					v = true
					for _, p := range b.Preds {
						if !(out[p] || edgeStores(p, b)) {
							v = false
						}
					}
					if len(b.Preds) == 0 {
						v = true
					}
				}
				o := v || blockStores(b)
				if v != in[b] || o != out[b] {
					in[b], out[b], changed = v, o, true
				}
			}
		}
		okAll := true
		var bad []*ssa.Return
		for _, b := range fn.Blocks {
			if r, ok := b.Instrs[len(b.Instrs)-1].(*ssa.Return); ok && !out[b] {
				okAll = false
				bad = append(bad, r)
			}
		}
		return okAll, bad
	}
	allReturnsStore = func(fn *ssa.Function) bool {
		switch memo[fn] {
		case 1, 3:
			return false
		case 2:
			return true
		}
		memo[fn] = 1
		ok, _ := storedAtReturns(fn)
		if ok {
			memo[fn] = 2
		} else {
			memo[fn] = 3
		}
		return ok
	}
	pk := P.Pkg("simple")
	if pk == nil {
		R.Unresolved(id, "package simple")
		return
	}
	for _, fn := range P.RepoFuncs("simple") {
		if fn.Parent() != nil || fn.Blocks == nil {
			continue
		}
		name := fn.Name()
		isProc := fn.Signature.Recv() != nil && (strings.HasPrefix(name, "NFSPROC3_") || strings.HasPrefix(name, "MOUNTPROC3_"))
		if isProc && fn.Signature.Results().Len() == 1 {
			// procedures without a status in their reply (NULL, UMNT, DUMP, EXPORT) have nothing to store
			hasStatus := false
			if st, ok := fn.Signature.Results().At(0).Type().Underlying().(*types.Struct); ok {
				for i := 0; i < st.NumFields(); i++ {
					if st.Field(i).Name() == "Status" || st.Field(i).Name() == "Fhs_status" {
						hasStatus = true
					}
				}
			}
			if !hasStatus {
				continue
			}
			nr := 0
			_, badRets := storedAtReturns(fn)
			isBad := map[*ssa.Return]bool{}
			for _, r := range badRets {
				isBad[r] = true
			}
			for _, b := range fn.Blocks {
				r, ok := b.Instrs[len(b.Instrs)-1].(*ssa.Return)
				if !ok {
					continue
				}
				nr++
				R.Analysed[FuncName(fn)] = true
				R.Check(!isBad[r], id, fmt.Sprintf("simple.%s|return#%d has a status", name, nr), P.Pos(r.Pos()), "a store to the reply's Status lies on every path to this return", "must-precede", "a path returns a reply whose Status was never stored: it is NFS3_OK, the zero value - a request that was refused, is not supported, or failed is acknowledged")
			}
		}
		// helpers that are handed the reply and answer a boolean
		if !isProc && fn.Signature.Results().Len() == 1 {
			bt, isB := fn.Signature.Results().At(0).Type().Underlying().(*types.Basic)
			takesReply := false
			for _, p := range fn.Params {
				if n := derefNamed(p.Type()); n != nil && strings.HasSuffix(n.Obj().Name(), "3res") {
					takesReply = true
				}
			}
			if !isB || bt.Kind() != types.Bool || !takesReply {
				continue
			}
			nf := 0
			check := func(at ssa.Instruction) {
				nf++
				R.Analysed[FuncName(fn)] = true
				R.Check(isFailStore(at) || MustBefore(fn, isFailStore)(at), id, fmt.Sprintf("simple.%s|false#%d has a failing status", name, nf), P.Pos(at.Pos()), "a store of a failing status lies on every path to this 'false'", "must-precede", "the helper says 'do not commit' without saying why: the reply keeps NFS3_OK, the zero value - the caller returns it and the client takes the request for done")
			}
			// a refusal decided is a refusal returned: the block that stores a failing status goes straight to
			// 'return false' - with true the caller commits and overwrites the status with OK
			ns := 0
			for _, b := range fn.Blocks {
				for _, in := range b.Instrs {
					if isFailStore(in) {
						ns++
						R.Check(straightToBool(b, false), id, fmt.Sprintf("simple.%s|refusal#%d is returned", name, ns), P.Pos(in.Pos()), "the block that stores a failing status returns false", "straight to 'return false'", "the helper stores a failing status and then answers true (or goes on): its caller commits and stores NFS3_OK over it - a refused request is acknowledged")
					}
				}
			}
			for _, b := range fn.Blocks {
				r, ok := b.Instrs[len(b.Instrs)-1].(*ssa.Return)
				if !ok {
					continue
				}
				if bv, isb := constBool(r.Results[0]); isb && !bv {
					check(r)
					continue
				}
				if ph, isP := r.Results[0].(*ssa.Phi); isP && ph.Block() == b {
					for i, e := range ph.Edges {
						if bv, isb := constBool(e); isb && !bv {
							pred := b.Preds[i]
							check(pred.Instrs[len(pred.Instrs)-1])
						}
					}
				}
			}
		}
	}
}
