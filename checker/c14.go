package main

import (
	"fmt"
	"go/token"
	"go/types"
	"os"
	"sort"
	"strings"

	"golang.org/x/tools/go/ssa"
)

func init() {
	props["C14"] = func(c *Ctx) {
		c.R.Expl = "Static lock-discipline check for the shared state of the server packages: (D1) cached inodes are used only while the transaction that locked them is live (handlers, shrinker goroutine, DoShrink); (D2) mutex-guarded fields are accessed only with their mutex held (lockset over the CFG, 'callers hold' for helpers); (D3) latency statistics are touched only through sync/atomic; (D4) no go statement hands a lock-protected object to another goroutine; (D5) configuration is written only before serving; (D6) every struct type of the server packages has one frozen discipline and no store violates it - a new shared type or field shows up as unclassified."
		c.R.NotDec = "races inside dependencies (journal logger/installer); channels and net; anything observed by the dynamic race detector on a particular schedule."
		ruleT1(c, "C14.D1")
		ruleD2(c, "C14.D2")
		ruleD3(c, "C14.D3")
		ruleD4(c, "C14.D4")
		ruleD5(c, "C14.D5")
		ruleD6(c, "C14.D6")
		ruleSlot(c, "C14.D7")
		ruleT2(c, "C14.D8")
		ruleZ4(c, "C14.D9")
		ruleD10(c, "C14.D10")
		ruleD11(c, "C14.D11")
	}
}

// heldAt computes, for fn, the program points at which the mutex identified by
// (struct type name, field name) is held, by a forward must-analysis.
func heldAt(fn *ssa.Function, mtype, mfield string) func(ssa.Instruction) bool {
	isOp := func(in ssa.Instruction, name string) bool {
		if _, ok := in.(*ssa.Call); !ok {
			return false
		}
		if !isMutexMethod(staticCallee(in), name) {
			return false
		}
		t, f, _, _ := loadedField(recvOf(in))
		return t != nil && t.Obj().Name() == mtype && f == mfield
	}
	n := len(fn.Blocks)
	in := make([]bool, n)
	for i := range in {
		in[i] = true
	}
	if n > 0 {
		in[0] = false
	}
	out := func(b *ssa.BasicBlock) bool {
		h := in[b.Index]
		for _, x := range b.Instrs {
			if isOp(x, "Lock") {
				h = true
			} else if isOp(x, "Unlock") {
				h = false
			}
		}
		return h
	}
	changed := true
	for changed {
		changed = false
		for _, b := range fn.Blocks {
			if b.Index == 0 {
				continue
			}
			v := true
			for _, p := range b.Preds {
				if !out(p) {
					v = false
				}
			}
			if v != in[b.Index] {
				in[b.Index] = v
				changed = true
			}
		}
	}
	return func(target ssa.Instruction) bool {
		b := target.Block()
		h := in[b.Index]
		for _, x := range b.Instrs {
			if x == target {
				return h
			}
			if isOp(x, "Lock") {
				h = true
			} else if isOp(x, "Unlock") {
				h = false
			}
		}
		return h
	}
}

type guardSpec struct {
	pkg, typ, field string
	mtype, mfield   string
}

var guardedFields = []guardSpec{
	{"shrinker", "ShrinkerSt", "nthread", "ShrinkerSt", "mu"},
	{"shrinker", "ShrinkerSt", "crash", "ShrinkerSt", "mu"},
	{"cache", "Cache", "entries", "Cache", "mu"},
	{"cache", "Cache", "lru", "Cache", "mu"},
	{"cache", "Cache", "cnt", "Cache", "mu"},
	{"cache", "entry", "lru", "Cache", "mu"},
}

func ruleD2(c *Ctx, id string) {
	P, R := c.P, c.R
	R.Rule(id, "guarded-by: ShrinkerSt.{nthread,crash} only under ShrinkerSt.mu; Cache.{entries,lru,cnt} and entry.lru only under Cache.mu (helpers without their own Lock must be called with it held)", 25)
	perKey := map[string]int{}
	// callersHold: every call site of fn is at a point where the mutex is held
	var callersHold func(fn *ssa.Function, g guardSpec, d int) bool
	callersHold = func(fn *ssa.Function, g guardSpec, d int) bool {
		if d > 3 {
			return false
		}
		cs := P.CallersOf(fn)
		if len(cs) == 0 {
			return false
		}
		for _, s := range cs {
			if !IsRepoFunc(s.Caller) {
				return false
			}
			if heldAt(s.Caller, g.mtype, g.mfield)(s.Instr) {
				continue
			}
			if !callersHold(s.Caller, g, d+1) {
				return false
			}
		}
		return true
	}
	for _, fn := range P.RepoFuncs("shrinker", "cache", "nfs", "fstxn", "dir", "inode") {
		for _, fa := range FieldAddrs(fn) {
			for _, g := range guardedFields {
				if fa.Type.Obj().Name() != g.typ || fa.Field != g.field || !strings.HasSuffix(fa.Type.Obj().Pkg().Path(), "/"+g.pkg) {
					continue
				}
				// construction of a fresh object is not shared yet
				if _, fresh := fa.Base.(*ssa.Alloc); fresh {
					continue
				}
				R.Analysed[FuncName(fn)] = true
				base := fmt.Sprintf("%s|%s.%s", FuncName(fn), g.typ, g.field)
				perKey[base]++
				key := base
				if perKey[base] > 1 {
					key = fmt.Sprintf("%s#%d", base, perKey[base])
				}
				held := heldAt(fn, g.mtype, g.mfield)(fa.Instr)
				why := "mutex held at this point on every path"
				if !held && callersHold(fn, g, 0) {
					held = true
					why = "helper without its own Lock: every caller holds the mutex at the call"
				}
				R.Check(held, id, key, P.Pos(fa.Instr.Pos()), fmt.Sprintf("%s.%s is accessed with %s.%s held", g.typ, g.field, g.mtype, g.mfield), why, "access without the guarding mutex: races with the other users of this field")
			}
		}
		// a copy of the whole struct reads every guarded field at once (a value receiver on a method of the
		// protected type copies it at each call, before the method can take the lock)
		for _, wa := range wholeValueAccesses(fn, func(t types.Type) *types.Named {
			n, ok := types.Unalias(t).(*types.Named)
			if !ok || n.Obj().Pkg() == nil {
				return nil
			}
			for _, g := range guardedFields {
				if n.Obj().Name() == g.typ && strings.HasSuffix(n.Obj().Pkg().Path(), "/"+g.pkg) {
					return n
				}
			}
			return nil
		}) {
			for _, g := range guardedFields {
				if wa.named.Obj().Name() != g.typ || !strings.HasSuffix(wa.named.Obj().Pkg().Path(), "/"+g.pkg) {
					continue
				}
				held := heldAt(fn, g.mtype, g.mfield)(wa.in)
				if !held && callersHold(fn, g, 0) {
					held = true
				}
				base := fmt.Sprintf("%s|whole %s (field %s)", FuncName(fn), g.typ, g.field)
				perKey[base]++
				key := base
				if perKey[base] > 1 {
					key = fmt.Sprintf("%s#%d", base, perKey[base])
				}
				R.Check(held, id, key, P.Pos(wa.in.Pos()), fmt.Sprintf("a copy of the whole %s (which reads %s) is made with %s.%s held", g.typ, g.field, g.mtype, g.mfield), "mutex held", fmt.Sprintf("the whole %s is copied without its mutex (e.g. for a call of a value-receiver method): %s is read while other goroutines write it under the lock", g.typ, g.field))
			}
		}
	}
}

// wholeValueAccesses: loads and stores of a whole value of a named struct type
// (not of one field) through a pointer that is not a fresh local: "x := *p",
// "*p = v", and the copy made for a call of a value-receiver method.
type wholeAccess struct {
	in    ssa.Instruction
	named *types.Named
	store bool
}

func wholeValueAccesses(fn *ssa.Function, want func(t types.Type) *types.Named) []wholeAccess {
	var out []wholeAccess
	for _, b := range fn.Blocks {
		for _, in := range b.Instrs {
			switch x := in.(type) {
			case *ssa.UnOp:
				if x.Op != token.MUL {
					continue
				}
				if n := want(x.Type()); n != nil {
					if al, ok := x.X.(*ssa.Alloc); ok && !al.Heap {
						continue
					}
					if rs := x.Referrers(); rs == nil || len(*rs) == 0 {
						continue // "for i := range arr": go/ssa loads the array, the language does not evaluate it
					}
					out = append(out, wholeAccess{in, n, false})
				}
			case *ssa.Store:
				if n := want(x.Val.Type()); n != nil {
					if _, ok := x.Addr.(*ssa.Alloc); ok {
						continue // initialisation of a local / of a fresh object
					}
					out = append(out, wholeAccess{in, n, true})
				}
			}
		}
	}
	return out
}

func ruleD3(c *Ctx, id string) {
	P, R := c.P, c.R
	R.Rule(id, "statistics are atomic: stats.Op.{count,nanos} are touched only as the address argument of sync/atomic functions (or on local copies)", 18)
	op := P.Named("util/stats", "Op")
	if op == nil {
		R.Unresolved(id, "util/stats.Op")
		return
	}
	perKey := map[string]int{}
	for _, fn := range P.RepoFuncs() {
		if strings.HasPrefix(relPkg(fn), "cmd/") {
			continue
		}
		for _, fa := range FieldAddrs(fn) {
			if fa.Type != op {
				continue
			}
			// local copy: base is a local alloc or derived from one (value receiver, loadedOps[i] built locally)
			local := false
			if al, ok := fa.Base.(*ssa.Alloc); ok && !al.Heap {
				local = true
			}
			if al, ok := fa.Base.(*ssa.Alloc); ok {
				// value receiver spilled / local variable of type Op
				if _, isOp := al.Type().Underlying().(*types.Pointer).Elem().(*types.Named); isOp {
					local = true
				}
			}
			atomicOnly := true
			for _, r := range refs(fa.Addr) {
				call, ok := r.(*ssa.Call)
				if !ok {
					atomicOnly = false
					continue
				}
				cal := staticCallee(call)
				if cal == nil || funcPkg(cal) == nil || funcPkg(cal).Path() != "sync/atomic" {
					atomicOnly = false
				}
			}
			base := fmt.Sprintf("%s|Op.%s", FuncName(fn), fa.Field)
			perKey[base]++
			key := base
			if perKey[base] > 1 {
				key = fmt.Sprintf("%s#%d", base, perKey[base])
			}
			why := "address passed to sync/atomic only"
			if !atomicOnly && local {
				why = "plain access on a local copy"
			}
			if !atomicOnly && !local {
				// element of a local slice built in this function (WriteTable's loadedOps)
				if ia, ok := fa.Base.(*ssa.IndexAddr); ok {
					if _, isMk := stripConv(ia.X).(*ssa.MakeSlice); isMk {
						local = true
						why = "plain access on an element of a slice built locally"
					}
				}
			}
			R.Check(atomicOnly || local, id, key, P.Pos(fa.Instr.Pos()), "shared latency counters are accessed atomically", why, "plain read/write of a counter that handlers update concurrently")
		}
		// the counters as a whole: assigning or copying an Op, or an array / struct that holds some, is a plain access
		// to every counter in it
		var holdsOp func(t types.Type, d int) bool
		holdsOp = func(t types.Type, d int) bool {
			if d > 3 {
				return false
			}
			if n, ok := types.Unalias(t).(*types.Named); ok && n == op {
				return true
			}
			switch u := t.Underlying().(type) {
			case *types.Array:
				return holdsOp(u.Elem(), d+1)
			case *types.Struct:
				for i := 0; i < u.NumFields(); i++ {
					if holdsOp(u.Field(i).Type(), d+1) {
						return true
					}
				}
			}
			return false
		}
		for _, wa := range wholeValueAccesses(fn, func(t types.Type) *types.Named {
			if holdsOp(t, 0) {
				return op
			}
			return nil
		}) {
			// a local copy being filled or read (value receiver, snapshot built element by element) is fine
			var addr ssa.Value
			if ld, ok := wa.in.(*ssa.UnOp); ok {
				addr = ld.X
			} else if st, ok := wa.in.(*ssa.Store); ok {
				addr = st.Addr
			}
			root := addr
			for {
				if ia, ok := root.(*ssa.IndexAddr); ok {
					root = ia.X
					continue
				}
				if f2, ok := root.(*ssa.FieldAddr); ok {
					root = f2.X
					continue
				}
				break
			}
			if al, ok := root.(*ssa.Alloc); ok {
				if _, isP := derefType(al.Type()).(*types.Pointer); !isP {
					continue
				}
			}
			if _, isMk := stripConv(root).(*ssa.MakeSlice); isMk {
				continue
			}
			if _, isMk := resultOf(root).(*ssa.MakeSlice); isMk {
				continue // a snapshot slice built by a private helper
			}
			fr, frWhy := freshSlice(c, stripConv(root), 0)
			if fr {
				continue // a snapshot built with make and append, possibly in a private helper
			}
			if os.Getenv("NFSVERIF_DEBUG") != "" {
				fmt.Printf("D3 debug: root %T %v: %s\n", stripConv(root), stripConv(root), frWhy)
			}
			base := fmt.Sprintf("%s|whole Op value", FuncName(fn))
			perKey[base]++
			key := base
			if perKey[base] > 1 {
				key = fmt.Sprintf("%s#%d", base, perKey[base])
			}
			kind := "copied"
			if wa.store {
				kind = "assigned"
			}
			R.Check(false, id, key, P.Pos(wa.in.Pos()), "shared latency counters are never assigned or copied as a whole", "no whole-value access", "an Op (or an array/struct of them) is "+kind+" with a plain load/store while other goroutines update the counters with sync/atomic: a reset can be lost or a torn total read")
		}
	}
}

func carriesProtected(t types.Type, seen map[types.Type]bool, d int) string {
	if d > 3 || seen[t] {
		return ""
	}
	seen[t] = true
	for _, n := range [][2]string{{"/inode", "Inode"}, {"/fstxn", "FsTxn"}, {"/alloctxn", "AllocTxn"}, {"/cache", "Cslot"}} {
		if isNamed(t, n[0], n[1]) {
			return n[1]
		}
	}
	switch u := t.Underlying().(type) {
	case *types.Pointer:
		return carriesProtected(u.Elem(), seen, d+1)
	case *types.Slice:
		return carriesProtected(u.Elem(), seen, d+1)
	}
	return ""
}

func ruleD4(c *Ctx, id string) {
	P, R := c.P, c.R
	R.Rule(id, "nothing lock-protected escapes to another goroutine: no go statement in the server packages passes or captures an *Inode, *FsTxn, *AllocTxn or *Cslot", 1)
	n := 0
	for _, fn := range P.RepoFuncs(serverPkgs...) {
		for _, b := range fn.Blocks {
			for _, in := range b.Instrs {
				g, ok := in.(*ssa.Go)
				if !ok {
					continue
				}
				n++
				bad := ""
				for _, a := range g.Call.Args {
					if s := carriesProtected(a.Type(), map[types.Type]bool{}, 0); s != "" {
						bad = "argument of type " + s
					}
				}
				if mc, ok := g.Call.Value.(*ssa.MakeClosure); ok {
					for _, bnd := range mc.Bindings {
						if s := carriesProtected(bnd.Type(), map[types.Type]bool{}, 0); s != "" {
							bad = "captured variable of type " + s
						}
					}
				}
				R.Check(bad == "", id, fmt.Sprintf("%s|go#%d", FuncName(fn), n), P.Pos(g.Pos()), "the goroutine receives no lock-protected object", "only plain values / shared descriptors are passed", bad+" handed to a goroutine that does not hold its lock")
			}
		}
	}
}

func ruleD5(c *Ctx, id string) {
	V, P, R := c.V, c.P, c.R
	R.Rule(id, "configuration is written before serving: stores to Nfs.Unstable occur only in functions not reachable from a handler or a server goroutine", 1)
	var roots []*ssa.Function
	roots = append(roots, V.NfsEntries...)
	roots = append(roots, goRoots(P)...)
	serving := P.Reach(roots, func(f *ssa.Function) bool { return !IsRepoFunc(f) })
	n := 0
	for _, fn := range P.RepoFuncs() {
		for _, w := range FieldWrites(fn) {
			if w.Type != V.Nfs || w.Field != "Unstable" {
				continue
			}
			n++
			R.Check(!serving[fn], id, FuncName(fn)+"|writes Nfs.Unstable", P.Pos(w.Instr.Pos()), "the unstable-write option is set only during start-up", "writer not reachable from handlers", "the option is written while handlers read it without synchronisation")
		}
	}
	if n == 0 {
		R.Pass(id, "no writer of Nfs.Unstable outside construction", "?", "no store found", "")
	}
}

// disciplines of the struct types declared in the server packages
var disciplines = map[string]string{
	"fstxn.FsTxn":         "txn-local",
	"alloctxn.AllocTxn":   "txn-local",
	"inode.Inode":         "inode-lock",
	"dcache.Dcache":       "inode-lock",
	"dcache.Dentry":       "value",
	"cache.Cslot":         "inode-lock",
	"cache.Cache":         "mutex",
	"cache.entry":         "mutex",
	"shrinker.ShrinkerSt": "mutex",
	"nfs.Nfs":             "immutable",
	"fstxn.FsState":       "immutable",
	"super.FsSuper":       "immutable",
	"fh.Fh":               "value",
	"dir.dirEnt":          "value",
}

func ruleD6(c *Ctx, id string) {
	V, P, R := c.V, c.P, c.R
	R.Rule(id, "shared-state inventory: every struct type declared in the server packages has one frozen discipline (transaction-local, under the inode lock, under its mutex, atomic, immutable after construction, plain value); immutable types have no field store reachable from a handler or goroutine", 9)
	var roots []*ssa.Function
	roots = append(roots, V.NfsEntries...)
	roots = append(roots, goRoots(P)...)
	serving := P.Reach(roots, func(f *ssa.Function) bool { return !IsRepoFunc(f) })
	// enumerate struct types
	var names []string
	types_ := map[string]*types.Named{}
	for _, rp := range serverPkgs {
		pk := P.Pkg(rp)
		if pk == nil {
			continue
		}
		sc := pk.Types.Scope()
		for _, nm := range sc.Names() {
			tn, ok := sc.Lookup(nm).(*types.TypeName)
			if !ok {
				continue
			}
			n, ok := tn.Type().(*types.Named)
			if !ok {
				continue
			}
			if _, isS := n.Underlying().(*types.Struct); !isS {
				continue
			}
			k := rp + "." + nm
			names = append(names, k)
			types_[k] = n
		}
	}
	sort.Strings(names)
	// writers per type reachable from serving
	writers := map[*types.Named][]string{}
	for fn := range serving {
		if !IsRepoFunc(fn) {
			continue
		}
		for _, w := range FieldWrites(fn) {
			if _, fresh := w.Base.(*ssa.Alloc); fresh {
				continue
			}
			writers[w.Type] = append(writers[w.Type], FuncName(fn)+"."+w.Field)
		}
	}
	for _, k := range names {
		n := types_[k]
		d, ok := disciplines[k]
		ws := writers[n]
		sort.Strings(ws)
		if !ok && len(ws) > 0 && !canBeShared(P, n) {
			// the context object of one call (a function split into phases that share a struct): no struct field,
			// package-level variable or goroutine can hold a value of this type
			R.Pass(id, k+"|local to one call", P.Pos(n.Obj().Pos()), "values of this type live in local variables only (no field, package-level variable or goroutine holds one)", fmt.Sprintf("%d serving-path stores", len(ws)))
			continue
		}
		if !ok {
			R.Check(len(ws) == 0, id, k+"|unclassified", P.Pos(n.Obj().Pos()), "a struct type with stores reachable from handlers has a frozen synchronisation discipline", "no store reachable from the serving path", fmt.Sprintf("new shared state without a discipline: written by %s", strings.Join(ws, ", ")))
			continue
		}
		switch d {
		case "immutable":
			var bad []string
			for _, w := range ws {
				// Nfs.stats is atomic (D3)
				if k == "nfs.Nfs" && (strings.HasSuffix(w, ".stats")) {
					continue
				}
				bad = append(bad, w)
			}
			R.Check(len(bad) == 0, id, k+"|immutable after construction", P.Pos(n.Obj().Pos()), "no field of "+k+" is stored by a function reachable from a handler or goroutine", "no such store", "written while serving: "+strings.Join(bad, ", "))
		default:
			R.Pass(id, k+"|"+d, P.Pos(n.Obj().Pos()), "discipline "+d+" (checked by D1-D4)", fmt.Sprintf("%d serving-path stores", len(ws)))
		}
	}
	// new fields in mutex-disciplined types must be in the guard table
	for _, k := range names {
		if disciplines[k] != "mutex" {
			continue
		}
		n := types_[k]
		st := n.Underlying().(*types.Struct)
		for i := 0; i < st.NumFields(); i++ {
			f := st.Field(i)
			listed := false
			for _, g := range guardedFields {
				if g.typ == n.Obj().Name() && g.field == f.Name() {
					listed = true
				}
			}
			written := false
			for _, w := range writers[n] {
				if strings.HasSuffix(w, "."+f.Name()) {
					written = true
				}
			}
			if !listed && written {
				R.Fail(id, k+"."+f.Name()+"|unguarded field", P.Pos(f.Pos()), "every field of a mutex-protected type that is written while serving is in the guarded-by table", "field "+f.Name()+" is written on the serving path and has no frozen guard")
			}
		}
	}
}

// ruleD10: package-level variables of go-nfsd are shared by every request
// (handlers run concurrently, holding at most the locks of the inodes they
// work on).  After initialisation they are read-only: no function outside the
// package initialisers stores to one, stores through one (elements of a
// package-level slice or array, fields of a package-level struct), or hands
// the memory of one to code that may write it (a scratch buffer given to an
// encoder).
func ruleD10(c *Ctx, id string) {
	P, R := c.P, c.R
	R.Rule(id, "package-level variables are read-only after initialisation: outside package initialisers nothing stores to a go-nfsd package-level variable, stores through it, or hands its memory to code that may write it", 2)
	var globals []*ssa.Global
	for _, pkg := range P.Prog.AllPackages() {
		if pkg.Pkg == nil || !strings.HasPrefix(pkg.Pkg.Path(), modPath) || strings.Contains(pkg.Pkg.Path(), "/cmd/") {
			continue
		}
		for _, m := range pkg.Members {
			if g, ok := m.(*ssa.Global); ok && !strings.HasPrefix(g.Name(), "init$") {
				globals = append(globals, g)
			}
		}
	}
	sort.Slice(globals, func(i, j int) bool { return globals[i].String() < globals[j].String() })
	// rootGlobal: the package-level variable whose memory addr/value v denotes
	var rootGlobal func(v ssa.Value, depth int) *ssa.Global
	rootGlobal = func(v ssa.Value, depth int) *ssa.Global {
		if depth > 8 {
			return nil
		}
		switch x := v.(type) {
		case *ssa.Global:
			return x
		case *ssa.UnOp:
			if x.Op == token.MUL {
				// a load: the value of a package-level slice, map or pointer still denotes the variable's memory
				if g := rootGlobal(x.X, depth+1); g != nil {
					switch x.Type().Underlying().(type) {
					case *types.Slice, *types.Map, *types.Pointer:
						return g
					}
				}
			}
		case *ssa.IndexAddr:
			return rootGlobal(x.X, depth+1)
		case *ssa.FieldAddr:
			return rootGlobal(x.X, depth+1)
		case *ssa.Slice:
			return rootGlobal(x.X, depth+1)
		case *ssa.Convert:
			return rootGlobal(x.X, depth+1)
		case *ssa.ChangeType:
			return rootGlobal(x.X, depth+1)
		}
		return nil
	}
	isRepoGlobal := map[*ssa.Global]bool{}
	for _, g := range globals {
		isRepoGlobal[g] = true
	}
	// mayWrite: function f may write the memory its parameter i denotes
	var mayWrite func(f *ssa.Function, i int, depth int) bool
	mayWrite = func(f *ssa.Function, i int, depth int) bool {
		if f == nil || f.Blocks == nil || depth > 3 || i >= len(f.Params) {
			return true
		}
		pm := f.Params[i]
		derived := func(v ssa.Value) bool {
			for k := 0; k < 8; k++ {
				switch x := v.(type) {
				case *ssa.Parameter:
					return x == pm
				case *ssa.IndexAddr:
					v = x.X
				case *ssa.FieldAddr:
					v = x.X
				case *ssa.Slice:
					v = x.X
				case *ssa.Convert:
					v = x.X
				case *ssa.ChangeType:
					v = x.X
				case *ssa.MakeInterface:
					v = x.X
				default:
					return false
				}
			}
			return false
		}
		for _, b := range f.Blocks {
			for _, in := range b.Instrs {
				switch x := in.(type) {
				case *ssa.Store:
					if derived(x.Addr) {
						return true
					}
					if derived(x.Val) {
						return true // kept somewhere: who knows
					}
				case *ssa.MapUpdate:
					if derived(x.Map) {
						return true
					}
				case ssa.CallInstruction:
					cc := x.Common()
					for j, a := range cc.Args {
						if !derived(a) {
							continue
						}
						if bi, isB := cc.Value.(*ssa.Builtin); isB {
							if bi.Name() == "copy" && j == 0 || bi.Name() == "append" && j == 0 || bi.Name() == "delete" || bi.Name() == "clear" {
								return true
							}
							continue
						}
						cal := cc.StaticCallee()
						if cal == nil {
							return true
						}
						if funcPkg(cal) != nil {
							switch funcPkg(cal).Path() {
							case "fmt", "strings", "bytes", "log", "strconv", "sort", "io":
								if funcPkg(cal).Path() != "sort" && funcPkg(cal).Path() != "io" {
									continue // these read their arguments
								}
							}
						}
						if mayWrite(cal, j, depth+1) {
							return true
						}
					}
				}
			}
		}
		return false
	}
	n := 0
	var fns []*ssa.Function
	fns = append(fns, P.RepoFuncs()...)
	for _, fn := range fns {
		if strings.HasPrefix(relPkg(fn), "cmd/") || (fn.Name() == "init" && fn.Synthetic != "") {
			continue
		}
		for _, b := range fn.Blocks {
			for _, in := range b.Instrs {
				report := func(g *ssa.Global, what string) {
					if g == nil || !isRepoGlobal[g] {
						return
					}
					n++
					R.Fail(id, fmt.Sprintf("%s|%s %s", FuncName(ownerOf(fn)), what, g.Name()), P.Pos(in.Pos()), "package-level variables are not modified after initialisation", fmt.Sprintf("%s %s.%s, which every concurrent request shares and no lock protects", what, g.Pkg.Pkg.Name(), g.Name()))
				}
				switch x := in.(type) {
				case *ssa.Store:
					report(rootGlobal(x.Addr, 0), "stores to")
				case *ssa.MapUpdate:
					report(rootGlobal(x.Map, 0), "updates the map")
				case ssa.CallInstruction:
					cc := x.Common()
					for j, a := range cc.Args {
						g := rootGlobal(a, 0)
						if g == nil || !isRepoGlobal[g] {
							continue
						}
						if bi, isB := cc.Value.(*ssa.Builtin); isB {
							if bi.Name() == "copy" && j == 0 || bi.Name() == "append" && j == 0 || bi.Name() == "delete" || bi.Name() == "clear" {
								report(g, "writes (builtin "+bi.Name()+") into")
							}
							continue
						}
						cal := cc.StaticCallee()
						if cal != nil && funcPkg(cal) != nil {
							switch funcPkg(cal).Path() {
							case "fmt", "strings", "bytes", "log", "strconv":
								continue
							}
						}
						if cal == nil || mayWrite(cal, j, 0) {
							name := "a dynamic callee"
							if cal != nil {
								name = FuncName(cal)
							}
							report(g, "hands to "+name+" the memory of")
						}
					}
				}
			}
		}
	}
	var names []string
	for _, g := range globals {
		names = append(names, g.Pkg.Pkg.Name()+"."+g.Name())
	}
	R.Check(len(globals) >= 1, id, "inventory|package-level variables", "?", "the package-level variables of go-nfsd (outside cmd/) are enumerated", fmt.Sprintf("%d variables: %s", len(globals), strings.Join(names, ", ")), "no package-level variable found: the rule has lost sight of its subjects")
	R.Check(n == 0, id, "summary|no writer outside initialisers", "?", "no function outside package initialisers writes a package-level variable or its memory", "0 writers", fmt.Sprintf("%d writers (listed above)", n))
}

// mentionsType: t is, points to, or is a container of n.
func mentionsType(t types.Type, n *types.Named, d int) bool {
	if d > 6 {
		return false
	}
	if nn, ok := types.Unalias(t).(*types.Named); ok {
		if nn == n || nn.Origin() == n {
			return true
		}
		if _, isS := nn.Underlying().(*types.Struct); isS {
			return false // another named struct: looked at on its own
		}
		return mentionsType(nn.Underlying(), n, d+1)
	}
	switch u := t.(type) {
	case *types.Pointer:
		return mentionsType(u.Elem(), n, d+1)
	case *types.Slice:
		return mentionsType(u.Elem(), n, d+1)
	case *types.Array:
		return mentionsType(u.Elem(), n, d+1)
	case *types.Map:
		return mentionsType(u.Key(), n, d+1) || mentionsType(u.Elem(), n, d+1)
	case *types.Chan:
		return mentionsType(u.Elem(), n, d+1)
	case *types.Struct:
		for i := 0; i < u.NumFields(); i++ {
			if mentionsType(u.Field(i).Type(), n, d+1) {
				return true
			}
		}
	case *types.Interface:
		return false
	}
	return false
}

// canBeShared: a value of struct type n can be reached by two requests: some
// struct field or package-level variable of go-nfsd can hold it, it implements
// an interface-typed field's interface... (not followed: interfaces count as
// able to hold anything of a type with methods), or a goroutine is handed one.
func canBeShared(P *Program, n *types.Named) bool {
	for _, pkg := range P.Prog.AllPackages() {
		if pkg.Pkg == nil || !strings.HasPrefix(pkg.Pkg.Path(), modPath) {
			continue
		}
		sc := pkg.Pkg.Scope()
		for _, nm := range sc.Names() {
			switch o := sc.Lookup(nm).(type) {
			case *types.TypeName:
				if st, ok := o.Type().Underlying().(*types.Struct); ok {
					if on, _ := o.Type().(*types.Named); on == n {
						continue
					}
					for i := 0; i < st.NumFields(); i++ {
						ft := st.Field(i).Type()
						if mentionsType(ft, n, 0) {
							return true
						}
						// an interface-typed field can hold a value of any type with that method set
						if it, isI := ft.Underlying().(*types.Interface); isI && it.NumMethods() > 0 && (types.Implements(n, it) || types.Implements(types.NewPointer(n), it)) {
							return true
						}
					}
				}
			case *types.Var:
				if mentionsType(o.Type(), n, 0) {
					return true
				}
			}
		}
	}
	for _, fn := range P.RepoFuncs() {
		for _, b := range fn.Blocks {
			for _, in := range b.Instrs {
				g, ok := in.(*ssa.Go)
				if !ok {
					continue
				}
				for _, a := range g.Call.Args {
					if mentionsType(a.Type(), n, 0) {
						return true
					}
				}
				if mc, ok := g.Call.Value.(*ssa.MakeClosure); ok {
					for _, bnd := range mc.Bindings {
						if mentionsType(bnd.Type(), n, 0) {
							return true
						}
					}
				}
				if mentionsType(g.Call.Value.Type(), n, 0) {
					return true
				}
			}
		}
	}
	return false
}

// ruleD11: giving the inode lock back is the last thing a function does with
// the inode.  After lockmap.Release(ip.Inum) the next owner of the lock may
// already be writing ip's fields (AllocInode/InitInode of a CREATE that was
// handed the number): any later read of ip in the releasing function - even
// of ip.Inum, to forget the inode in the transaction's table - is a data race.
func ruleD11(c *Ctx, id string) {
	V, P, R := c.V, c.P, c.R
	R.Rule(id, "the release of an inode lock is the last use of the inode: in a function that calls lockmap.Release(x.Inum), no instruction that can execute after the call (without x being assigned anew) uses x", 1)
	if V.LockRelease == nil {
		return
	}
	n := 0
	// the places where a lock is given back by the number of an inode object: the call of lockmap.Release itself,
	// or the call of a private wrapper that hands its parameter on to it ("op.unlockInum(ip.Inum)")
	type relSite struct {
		fn  *ssa.Function
		ci  ssa.Instruction
		arg ssa.Value
	}
	var sites []relSite
	for _, fn := range P.RepoFuncs() {
		if fn.Blocks == nil {
			continue
		}
		for _, ci := range P.CallsIn(fn, funcIs(V.LockRelease)) {
			as := nonRecvArgs(ci)
			if len(as) == 0 {
				continue
			}
			a0 := stripConv(as[0])
			if pm, isP := a0.(*ssa.Parameter); isP && isPrivateHelper(fn) && staticSites != nil {
				idx := -1
				for i, q := range fn.Params {
					if q == pm {
						idx = i
					}
				}
				for _, site := range staticSites[fn] {
					cc := fullArgs(site)
					if idx >= 0 && idx < len(cc) {
						sites = append(sites, relSite{site.Parent(), site, cc[idx]})
					}
				}
				continue
			}
			sites = append(sites, relSite{fn, ci, a0})
		}
	}
	for _, rs := range sites {
		fn, ci := rs.fn, rs.ci
		{
			nm, fl, base, _ := loadedField(stripConv(rs.arg))
			if nm != V.Inode || fl != "Inum" || base == nil {
				continue // a lock named by a plain number (SimpleNFS, LockInode's counterpart): no object involved
			}
			n++
			R.Analysed[FuncName(fn)] = true
			x := stripConv(base)
			def, _ := x.(ssa.Instruction)
			// instructions that can execute after the call
			var late ssa.Instruction
			seen := map[*ssa.BasicBlock]bool{}
			uses := func(in ssa.Instruction) bool {
				if in == def {
					return false
				}
				for _, op := range in.Operands(nil) {
					if *op != nil && stripConv(*op) == x {
						return true
					}
				}
				return false
			}
			var scan func(b *ssa.BasicBlock, from int)
			scan = func(b *ssa.BasicBlock, from int) {
				for i := from; i < len(b.Instrs); i++ {
					in := b.Instrs[i]
					if in == def {
						return // x is assigned anew: another inode
					}
					if _, isD := in.(*ssa.DebugRef); isD {
						continue
					}
					if uses(in) && late == nil {
						late = in
					}
				}
				for _, s := range b.Succs {
					if !seen[s] {
						seen[s] = true
						scan(s, 0)
					}
				}
			}
			blk := ci.Block()
			for i, in := range blk.Instrs {
				if in == ci {
					scan(blk, i+1)
				}
			}
			at := P.Pos(ci.Pos())
			why := ""
			if late != nil {
				why = "the inode is used at " + P.Pos(late.Pos()) + " after its lock was given back"
				if late.Pos() == token.NoPos {
					why = "the inode is used after its lock was given back (" + late.String() + ")"
				}
			}
			R.Check(late == nil, id, FuncName(ownerOf(fn))+"|nothing touches the inode after Lockmap.Release", at, "the call that gives the lock back is the last use of the inode in the function", "no later use", why+": the next holder of the lock (a CREATE initialising the recycled inode) writes the object while it is still being read")
		}
	}
	R.Check(n > 0, id, "inventory|release of an inode's lock by its number", "?", "the place where inode locks are given back is found", fmt.Sprintf("%d sites", n), "no lockmap.Release(x.Inum) found")
}
