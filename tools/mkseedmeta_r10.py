#!/usr/bin/env python3
"""Writes meta.json for the round-10 seeded changes (seeded/<Cxx>-r10-<k>/) from confirm.json, the matrix
(seeded/MATRIX.json, run tools/seed_matrix.py first) and the one-line descriptions below, and the
corresponding self-test variant variants/<Cxx>__seed_<id>.patch (expect-rule = a rule of the seed's own property)."""
import json, os, glob
props={json.loads(l)['id']:json.loads(l) for l in open('/verif/properties.jsonl')}
DESC={
'C02-r10-1':("Inode.Read answers zeros for blocks at or beyond NDIRECT when the singly indirect pointer is null - also in the doubly indirect range",'a sparse file with data only at block 520 or above: the READ returns zeros where data was written'),
'C02-r10-2':("SETATTR refuses a size equal to MaxFileSize() (>= for >)",'SETATTR to exactly the announced maximum answers FBIG while WRITE reaches it'),
'C02-r10-3':("RENAME compares kinds only when the target is a directory (to.Kind == NF3DIR && from.Kind != NF3DIR)",'RENAME of a directory or symbolic link onto an existing regular file: OK, the file is freed'),
'C02-r10-4':("COMMIT's range test loses SumOverflows(offset, count)",'a COMMIT whose offset+count wraps past 2^64 to a value inside the file: OK with the verifier instead of INVAL'),
'C02-r10-5':("SETATTR picks the source of the new mtime by the atime's time_how",'a SETATTR whose atime and mtime carry different time_how values (touch -m -d): the server clock, or 0/0, is stored for the mtime'),
'C02-r10-6':("COMMIT's range test loses SumOverflows(offset, count) (found independently of C02-r10-4)",'offset 2^64-10, count 110 on a 100-byte file'),
'C05-r10-1':("Resize raises ShrinkSize only when the inode is not shrinking (IsShrinking() tested after Size was lowered)",'truncate to N blocks, grow past N by WRITEs, truncate below N: freeing starts at the stale ShrinkSize, the indirect block goes while its slots still point at data blocks'),
'C05-r10-2':("Inode.Read writes the inode once after its loop, with filled = alloc (the last block only)",'a multi-block READ that fills holes and ends on an allocated block, a restart, then removal: the blocks linked by the READ are never freed'),
'C10-r10-1':("FreeBlock of a block allocated by the same transaction only drops it from allocBnums (no zeroing, no free list, no FreeNum)",'a failed MKDIR/SYMLINK that frees its own allocation (name too long): the in-memory allocator keeps the block, the disk bitmap has it free'),
'C10-r10-2':("Inode.Encode writes the nanoseconds of atime and mtime modulo 10^9",'a client time with nseconds >= 10^9: the cached inode keeps the raw value, a restarted server (or the cache after eviction) has the reduced one'),
'C12-r10-1':("zeroTail looks up the block of the old end of file ((Size-1)/BlockSize) instead of the new one",'a shrink across a block boundary to an unaligned size, then growth: the kept block shows its old bytes after the new end'),
}
M=json.load(open('/verif/seeded/MATRIX.json'))['seeds']
for sid,(what,needs) in sorted(DESC.items()):
    d=f'/verif/seeded/{sid}'
    if not os.path.exists(d+'/confirm.json'): print('missing',sid); continue
    c=json.load(open(d+'/confirm.json'))
    prop=sid.split('-')[0]
    rules=M.get(sid,{}).get('rules',[])
    meta={'seed':sid,'property_broken':prop,'property_title':props[prop].get('title') or props[prop].get('name'),
      'change':what,'needs_to_manifest':needs,
      'source':'independent sub-agent (round 10) given only the property text, a list of changes already tried and a scratch worktree; change and demonstration re-confirmed by tools/confirm_seed.sh',
      'confirmed_against_commit':c['base_commit'],
      'what_was_run':{'build':f"go build ./... (exit {c['build_with_change_exit']})",'demonstration':c['demo_run'],
        'demo_exit_without_change':c['demo_without_change_exit'],'demo_exit_with_change':c['demo_with_change_exit'],
        'existing_suite_with_change':f"go test -vet=off -count=1 ./... (exit {c['existing_suite_with_change_exit']})"},
      'confirmed':c['confirmed'],'caught_by_rules':rules}
    json.dump(meta,open(d+'/meta.json','w'),indent=1)
    own=[r for r in rules if r.startswith(prop+'.')]
    if c['confirmed'] and own:
        p=open(d+'/patch.diff').read()
        open(f'/verif/variants/{prop}__seed_{sid}.patch','w').write(f'# seeded change {sid} (breaks {prop}; see /verif/seeded/{sid}/meta.json)\n# expect-rule: {own[0]}\n'+p)
    else:
        print('NOT CAUGHT BY OWN PROPERTY or unconfirmed:',sid,rules)
print('done')
