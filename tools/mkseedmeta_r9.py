#!/usr/bin/env python3
"""Writes meta.json for the round-9 seeded changes (seeded/<Cxx>-r9-<k>/) from confirm.json, the matrix
(seeded/MATRIX.json, run tools/seed_matrix.py first) and the one-line descriptions below, and the
corresponding self-test variant variants/<Cxx>__seed_<id>.patch (expect-rule = a rule of the seed's own property)."""
import json, os, glob
props={json.loads(l)['id']:json.loads(l) for l in open('/verif/properties.jsonl')}
DESC={
'C01-r9-1':("RENAME onto an existing name commits the removal of the target on its own and renames in a second transaction",'a crash between the two commits of one RENAME: the target is gone, the source not yet moved'),
'C01-r9-2':("makeRootDir commits the root inode before it writes '.' and '..' (a second transaction)",'a crash during the very first start on a blank disk, between the two commits: the disk counts as formatted, the root has no entries, for ever'),
'C03-r9-1':("RENAME skips validateRename after its relock when the cached directory objects are the same pointers as before the abort",'another client renames the source name away and creates a new one inside the window between abort and relock'),
'C03-r9-2':("simple: READ/WRITE take a lock on the data block, SETATTR/GETATTR/COMMIT still lock the inode",'a size-changing SETATTR racing a WRITE of the same file: both read the inode, the later commit overwrites the earlier'),
'C05-r9-1':("Inode.Shrink no longer writes the inode; DoShrink does",'a small SETATTR truncate (Shrink inside Resize), the inode evicted or the server restarted, the blocks given to another file, then any touch of the truncated file: freed twice'),
'C05-r9-2':("getAlloc releases the two inodes by hand instead of aborting when AllocInode hands back a half-freed inode",'a create that is handed the number of an inode whose multi-transaction free is unfinished (crash in the middle of a large free, restart, create): PostAbort never runs, the number stays taken'),
'C06-r9-1':("getAlloc takes the new inode (AllocInode) before it looks the name up",'a cold name cache (restart), a child numbered below the fresh inode, a concurrent request holding that child and wanting the fresh number'),
'C06-r9-2':("AllocTxn.NBitmapBlocks answers the total number of bitmap blocks",'a disk with 505 or more block-bitmap blocks: the shrink round test never passes, DoShrink and everybody helping it loop for ever'),
'C07-r9-1':("COMMIT skips the flush when no unstable write was counted since the last flush; the counter is sampled after the flush",'an UNSTABLE write acknowledged while another COMMIT waits for the disk, its own COMMIT, a crash'),
'C07-r9-2':("WriteInode logs the whole 4096-byte inode block (ReadBuf of the block, patch, SetDirty) instead of the 128-byte inode",'two files in one inode block, two overlapping transactions, then a crash or eviction: the neighbour inode is written back as it was read'),
'C08-r9-1':("validateRename checks the directory handles only in the cross-directory case",'a same-directory RENAME onto an existing name whose directory is removed and its number reused between the locking rounds'),
'C08-r9-2':("doCreate builds the reply handle with dip.Gen instead of ip.Gen",'inode-number reuse (generations of object and directory differ) and a client that uses the handle of the CREATE reply'),
'C09-r9-1':("WRITE releases the inode by hand instead of aborting when Inode.Write wrote nothing",'a failing WRITE whose first block lies behind a missing index block with one block free: the index block allocated and freed in the transaction stays marked in memory'),
'C09-r9-2':("dropInodes re-reads the committed inode and attaches the old name cache to it",'a RENAME whose AddName is refused after RemName succeeded: the name cache lacks the source name, the disk has it'),
'C10-r9-1':("dir.AddName answers true without writing when the name cache already maps the name to that inode number",'a directory inode number freed and reused for a directory while still cached (full inode table): "." and ".." are never written'),
'C10-r9-2':("dropInodes keeps a cached inode whose encoding equals the committed inode",'an aborted RENAME that edited the name cache without changing the 128 inode bytes'),
'C11-r9-1':("WRITE picks its commit with a switch over the three stable_how values and no default",'a WRITE with stable_how outside {0,1,2}: no commit, no abort, reply OK, the inode lock is never released'),
'C11-r9-2':("READDIR tests the alignment of args.Count instead of args.Cookie",'READDIR with a cookie that is not a multiple of 128 and an ordinary count: the entry decoder takes name bytes for a length and panics'),
'C13-r9-1':("dir.Apply fills a nil name cache while it lists from cookie 0, also when the page limit stops the scan",'a cold directory, a multi-page READDIRPLUS from cookie 0, then a name-based operation on a later name: NOENT, or a second slot for an existing name'),
'C13-r9-2':("Readdir3 inserts the entries of a page in name order while cookies stay slot offsets",'a multi-page READDIR of names created out of alphabetical order: the resume cookie is not that of the highest slot, names come twice'),
'C14-r9-1':("ReleaseInode gives the lock back (Lockmap.Release) before doneInode reads ip.Inum",'a release of a free inode whose next lock owner is the CREATE that was handed the number: InitInode writes while doneInode reads'),
'C14-r9-2':("ShrinkerSt.Crash sets the flag without the mutex and calls Shutdown",'Crash during a multi-round shrink: crashed() reads the flag under the mutex, Crash writes it outside'),
'C16-r9-1':("Nfstime3.Xdr gets a value receiver",'a SETATTR with SET_TO_CLIENT_TIME: the time is decoded into a copy, the server stores {0,0} and answers OK'),
'C16-r9-2':("Set_atime.Xdr treats every time_how other than DONT_CHANGE as carrying a time",'SETATTR with atime = SET_TO_SERVER_TIME: 8 bytes too many are consumed, the mtime is mis-parsed or the call refused as garbage'),
'C17-r9-1':("simple Inode.Write drops SumOverflows and applies the hole test only when the write grows the file",'a WRITE whose offset+count wraps past 2^64 to a value <= Size: the copy indexes the block buffer at 2^64-1'),
'C17-r9-2':("simple SETATTR takes the lock before the validInum exit, which does not release it",'two SETATTRs on the same invalid inode number: the second waits for ever'),
'C18-r9-1':("kvs.Get marks the buffer it read dirty before its commit",'a complete MultiPut of the key committing between the read and the commit of a Get: the old value is written back, durably'),
'C18-r9-2':("MultiPut skips a key it has already buffered in this call",'the same key twice in one MultiPut: the first value wins, the later one is dropped, the call answers true'),
'C19-r9-1':("decodeDirEnt answers a free entry as soon as the stored name length is 0",'a name of 0 bytes (accepted by CREATE), then a listing, a second create or a rebuild of the name cache'),
'C19-r9-2':("AllocBlock refuses when fewer than 16 log blocks are left",'a single allocating WRITE of 494 or 495 blocks (wtmax): answered OK with 493 blocks stored'),
'C02-r9-1':("doRead bounds the count for a symbolic link by a new constant rtmax (Min(ip.Size, rtmax))",'a symbolic link whose target is longer than 64 KiB: READLINK answers OK with the first 65536 bytes'),
'C02-r9-2':("Inode.Write raises Size outside the 'alloc || cnt > 0' arm (WriteInode stays inside)",'a zero-length WRITE beyond EOF, or a WRITE beyond EOF refused with NOSPC: the cached size grows, a restart takes it back'),
'C02-r9-3':("RMDIR calls doRemove with REMOVE's flag (isdir = false)",'RMDIR of a regular file or symbolic link: unlinked, answered OK'),
'C02-r9-4':("doCreate builds the reply's handle and attributes right after getAlloc, before InitDir and the write of the link target",'the size in a MKDIR or SYMLINK reply compared with the next GETATTR: 0 against 256 / the length of the target'),
'C02-r9-5':("Inode.Write raises Size outside the 'alloc || cnt > 0' arm (found independently of C02-r9-2)",'a zero-length WRITE beyond EOF, or a WRITE beyond EOF refused with NOSPC'),
'C02-r9-6':("doRead replaces a count of 0 by the object's size (instead of doing so for symbolic links)",'a READ with count 0 below EOF of a regular file: everything up to EOF is returned, unbounded by wtmax'),
'C04-r9-1':("AllocInode initialises a half-freed inode in the cache before the IsShrinking test, and NAllocated counts only blocks (two cooperating edits)",'a crash in the middle of a large free, restart, a create handed that number: Abort keeps the cached inode, the helping shrinker commits it - live on disk, bitmap bit free, no name'),
'C04-r9-2':("dir.AddName cuts a name longer than MAXNAMELEN to 112 bytes instead of refusing it (PATHCONF announces no_trunc = false); lookups use the full name",'the same over-long name created twice: two entries with the identical 112-byte name'),
'C12-r9-1':("freed blocks are zeroed in a second journal operation committed after the freeing transaction",'a crash between the two commits of a REMOVE: the bitmap says free, the blocks hold the old bytes, a hole of the next file shows them'),
'C12-r9-2':("the in-memory inode remembers its last doubly-indirect mapping (lastBn/lastBlk) and never forgets it",'access a block beyond 2 MB, truncate below it, let another file take the block, grow again and read the same logical block first'),
'C15-r9-1':("PostAbort returns the blocks of an aborted transaction to the inode allocator (Ialloc.FreeNum(bn))",'a transaction aborted after it allocated a block (disk-full corner: an index block plus a data block with one block free): the block is lost until restart, on disks above 32768 blocks the server panics'),
'C15-r9-2':("preCommit writes the bitmap bits in a journal operation of its own, committed ahead of the transaction",'a format (or a WRITE) cut between the two commits and run again: data blocks stay marked for good'),
}
M=json.load(open('/verif/seeded/MATRIX.json'))['seeds']
for sid,(what,needs) in sorted(DESC.items()):
    d=f'/verif/seeded/{sid}'
    if not os.path.exists(d+'/confirm.json'): print('missing',sid); continue
    c=json.load(open(d+'/confirm.json'))
    prop=sid.split('-')[0]
    rules=M.get(sid,{}).get('rules',[])
    meta={'seed':sid,'property_broken':prop,'property_title':props[prop].get('title') or props[prop].get('name'),
      'change':what,'needs_to_manifest':needs,
      'source':'independent sub-agent (round 9) given only the property text, a list of changes already tried and a scratch worktree; change and demonstration re-confirmed by tools/confirm_seed.sh',
      'confirmed_against_commit':c['base_commit'],
      'what_was_run':{'build':f"go build ./... (exit {c['build_with_change_exit']})",'demonstration':c['demo_run'],
        'demo_exit_without_change':c['demo_without_change_exit'],'demo_exit_with_change':c['demo_with_change_exit'],
        'existing_suite_with_change':f"go test -vet=off -count=1 ./... (exit {c['existing_suite_with_change_exit']})"},
      'confirmed':c['confirmed'],'caught_by_rules':rules}
    json.dump(meta,open(d+'/meta.json','w'),indent=1)
    own=[r for r in rules if r.startswith(prop+'.')]
    if c['confirmed'] and own:
        p=open(d+'/patch.diff').read()
        open(f'/verif/variants/{prop}__seed_{sid}.patch','w').write(f'# seeded change {sid} (breaks {prop}; see /verif/seeded/{sid}/meta.json)\n# expect-rule: {own[0]}\n'+p)
    else:
        print('NOT CAUGHT BY OWN PROPERTY or unconfirmed:',sid,rules)
print('done')
