#!/usr/bin/env python3
"""Writes meta.json for the round-5 seeded changes (seeded/<Cxx>-r5-<k>/) from confirm.json, the matrix
(seeded/MATRIX.json, run tools/seed_matrix.py first) and the one-line descriptions below, and the
corresponding self-test variant variants/<Cxx>__seed_<id>.patch (expect-rule = a rule of the seed's own property)."""
import json, os, glob
props={json.loads(l)['id']:json.loads(l) for l in open('/verif/properties.jsonl')}
DESC={
'C01-r5-1':('Inode.Shrink lowers its per-round log reserve from 5 to 3 blocks (shrinkFits(op, 3))','a disk with two block-bitmap blocks and a truncation that frees blocks on both sides of block 32768: the shrink transaction is one block larger than the log, the shrinker panics, WRITE/SETATTR fail for ever'),
'C01-r5-2':('Inode.Write builds a block from zeroes and overwrites it blindly on a partial write when bmap says the block is new - which it says for every block of the doubly indirect range','a file of more than 520 blocks and an unaligned or short WRITE into an existing block at file block 520 or beyond'),
'C03-r5-1':('same-directory RENAME answers STALE instead of retrying when lockInodes finds the target vanished during the relock','another client REMOVEs the target between RENAME\'s lookup and its ordered relock'),
'C03-r5-2':('getInodesLocked no longer begins a new transaction after Abort on the "child number below directory number" path','a child with a smaller inode number than its directory, a cold name cache and another client changing the same directory block between the two phases'),
'C04-r5-1':('RENAME\'s "kinds differ" exit loses its done = true: the tail runs on the aborted transaction','RENAME of a file onto an existing (empty) directory: the directory durably holds the name twice'),
'C04-r5-2':('the WriteInode after the parent link-count decrement in doRemove is removed as redundant','mkdir p; mkdir p/c; rmdir p/c; p\'s cached inode lost (restart / eviction); rmdir p'),
'C05-r5-1':('Shrink jumps over the doubly indirect range by setting ShrinkSize = NDIRECT+NBLKBLK-1 when there is no doubly indirect block','a file with block 519 allocated and a size beyond 520 blocks without a doubly indirect block, then remove or truncate: one block is never freed'),
'C05-r5-2':('doDecLink starts the shrinker only when the inode was not already shrinking','truncate a big file, crash between two shrinker transactions, restart, REMOVE or RENAME over the half-truncated file'),
'C06-r5-1':('RENAME resolves its two names only in the first round of its retry loop','another RPC removes or rebinds the target between RENAME\'s two lock rounds: every retry fails the same way'),
'C06-r5-2':('getInodesLocked reorders its two locks only for ".." (inum < dip.Inum && name == "..")','a child whose inode number is below its directory\'s, LOOKUP of it racing a RENAME onto an existing target over the same two inodes'),
'C07-r5-1':('CommitUnstable gets its own copy of commitWait without preCommit: unstable writes never log the bitmap bits of the blocks they allocate','UNSTABLE WRITE that allocates, COMMIT, restart, a new allocation on the restarted instance'),
'C07-r5-2':('mkWriteVerf uses a package-level boot time (var bootTime = time.Now())','two server instances in one process (restart in place): the verifier does not change although unstable writes were lost'),
'C08-r5-1':('getShrink re-takes the inode by number (GetInodeInum) after helping the shrinker instead of through the handle','a pending shrink, REMOVE and a CREATE that reuses the inode number between the help and the retry'),
'C08-r5-2':('ACCESS answers without resolving its handle','ACCESS with the handle of a removed object'),
'C09-r5-2':('the SETATTR dispatch wrapper calls the handler before it tests args.Error()','a SETATTR message cut short after the attributes (size 0): answered GARBAGE_ARGS, yet executed and committed'),
'C10-r5-1':('InitDir writes "." and ".." with AddNameDir directly: a new directory\'s name cache is not updated','rmdir, a full turn of the inode allocator while the freed inode stays cached, mkdir under another parent, LOOKUP ".."'),
'C10-r5-2':('mkDcache starts its rebuild scan at 2*DIRENTSZ, skipping "." and ".."','a cold name cache and LOOKUP of "." or "..", or CREATE named "."'),
'C11-r5-1':('the scan loops of Apply/ApplyEnts test off+DIRENTSZ <= dip.Size','READDIR/READDIRPLUS with the cookie 2^64-128: the sum wraps, the decoder panics on an empty read'),
'C11-r5-2':('lockInodes loses its "already locked by this transaction" branch (OwnInum / GetInodeUnlocked)','RENAME whose number list holds a duplicate (two byte-different handles of one directory; root/d -> d/x): the request waits for its own lock'),
'C12-r5-1':('Inode.Read tests for the null block only inside the "allocated" arm','a READ of a hole while no block is free: block 0 (the log header) is returned as file data'),
'C12-r5-2':('zeroTail clears only up to the old end of file\'s offset within the block','a shrink across a block boundary to an unaligned size, then growth: old bytes reappear'),
'C13-r5-1':('READDIR/READDIRPLUS accept a cookie only if the slot before it still holds a live entry (dir.IsCookie)','the entry that ended the previous page is removed between two calls'),
'C13-r5-2':('dir.Apply hands out the listed directory itself for ".." instead of locking the parent','READDIRPLUS of a non-root directory: "..": has the handle and attributes of the directory'),
'C14-r5-1':('ShrinkerSt.crashed() gets a value receiver: each call copies the struct before taking the lock','a multi-transaction shrink in flight together with Crash() (race detector)'),
'C14-r5-2':('timed_disk.ResetStats assigns d.ops = [3]stats.Op{} instead of resetting each counter atomically','the -stats mode and a statistics reset while the disk is active (race detector)'),
'C15-r5-1':('MkFsSuper sets Maxaddr = size-1 and AssertValidBlock accepts blkno <= MaxBnum(), makeFs still passes MaxBnum() as the exclusive end','sizes that are not a multiple of 32768 lose their last block; aligned sizes hand out block "size" and panic'),
'C15-r5-2':('markAlloc no longer takes a fresh buffer for the last bitmap block when it is not the first','a disk of more than 32768 blocks whose size is not a multiple of 32768: up to 1540 data blocks are marked used'),
'C16-r5-1':('NFS3ERR_NOTEMPTY = 39 (the Linux errno) instead of 66','RENAME of a directory onto a non-empty directory, observed on the wire'),
'C16-r5-2':('Mountres3_ok.Xdr decodes auth_flavors into a copy of the loop variable','decoding a MNT reply with a non-empty flavor list'),
'C17-r5-1':('simple Inode.Write sets Size = Size + count instead of offset + count when the file grows','a WRITE that straddles the end of a non-empty file'),
'C17-r5-2':('simple Inode.Read computes eof as count < bytesToRead','a READ that ends exactly at the end of the file'),
'C18-r5-1':('MultiPut copies values into sync.Pool blocks, logs those and returns them to the pool after the commit','a second put of other keys while the first update is not yet installed'),
'C18-r5-2':('MultiPut sorts its pairs by key with the unstable sort.Slice','one multi-put of more than 12 pairs that names a key twice with different values'),
'C19-r5-1':('MaxFileSize() rewritten as a sum over levels starting at 0: one block more than bmap can address','SETATTR/WRITE in the last announced block: indbmap indexes past the index block, the server panics'),
'C19-r5-2':('wtmaxReserve recounted as 6 blocks (wtmax grows to 505 blocks)','an unaligned wtmax write that crosses an index block and allocates across a bitmap-block boundary: refused by the journal'),
}
M=json.load(open('/verif/seeded/MATRIX.json'))['seeds']
for sid,(what,needs) in sorted(DESC.items()):
    d=f'/verif/seeded/{sid}'
    if not os.path.exists(d+'/confirm.json'): print('missing',sid); continue
    c=json.load(open(d+'/confirm.json'))
    prop=sid.split('-')[0]
    rules=M.get(sid,{}).get('rules',[])
    meta={'seed':sid,'property_broken':prop,'property_title':props[prop].get('title') or props[prop].get('name'),
      'change':what,'needs_to_manifest':needs,
      'source':'independent sub-agent (round 5) given only the property text, a list of changes already tried and a scratch worktree; change and demonstration re-confirmed by tools/confirm_seed.sh',
      'confirmed_against_commit':c['base_commit'],
      'what_was_run':{'build':f"go build ./... (exit {c['build_with_change_exit']})",'demonstration':c['demo_run'],
        'demo_exit_without_change':c['demo_without_change_exit'],'demo_exit_with_change':c['demo_with_change_exit'],
        'existing_suite_with_change':f"go test -vet=off -count=1 ./... (exit {c['existing_suite_with_change_exit']})"},
      'confirmed':c['confirmed'],'caught_by_rules':rules}
    json.dump(meta,open(d+'/meta.json','w'),indent=1)
    own=[r for r in rules if r.startswith(prop+'.')]
    if c['confirmed'] and own:
        p=open(d+'/patch.diff').read()
        open(f'/verif/variants/{prop}__seed_{sid}.patch','w').write(f'# seeded change {sid} (breaks {prop}; see /verif/seeded/{sid}/meta.json)\n# expect-rule: {own[0]}\n'+p)
    else:
        print('NOT CAUGHT BY OWN PROPERTY or unconfirmed:',sid,rules)
print('done')
