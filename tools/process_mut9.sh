#!/bin/bash
# usage: process_mut9.sh <Cxx> : confirm both round-9 seeds of a property from /tmp/mut9/<Cxx>/MUTATION/<k>
id=$1
for k in 1 2; do
  d=/tmp/mut9/$id/MUTATION/$k
  [ -f $d/patch.diff ] || { echo "$id-r9-$k: missing"; continue; }
  pkg=$(sed -n 1p $d/CMD.txt | tr -d ' \r'); run=$(sed -n 2p $d/CMD.txt | tr -d '\r'); l3=$(sed -n 3p $d/CMD.txt | tr -d '\r')
  tag=$(echo "$l3" | sed 's/-race//; s/ //g'); extra=""; echo "$l3" | grep -q -- -race && extra="-race"
  /verif/tools/confirm_seed.sh $id-r9-$k $d "$pkg" "$run" "$tag" "$extra"
done
