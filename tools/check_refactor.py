#!/usr/bin/env python3
"""usage: check_refactor.py <diff>...  -- apply each behaviour-preserving diff to a scratch copy of /repo and
run all checks: any NEW undischarged obligation (w.r.t. the unchanged tree) is a false alarm of the checker."""
import os, subprocess, sys, tempfile, shutil
env=dict(os.environ, GOFLAGS='-mod=mod', GOPROXY='off', GOSUMDB='off', GOTOOLCHAIN='local', NFSVERIF_NESTED='1'); env.pop('GOWORK',None)
def failing(repo):
    v=tempfile.mkdtemp(prefix='refverif.'); shutil.copy('/verif/known_findings.json', v)
    out=subprocess.run(['/verif/bin/nfsverif','-repo',repo,'-verif',v,'-prop','all'],capture_output=True,text=True,env=env).stdout
    shutil.rmtree(v)
    ks=set()
    for l in out.split('\n'):
        if l.startswith('FAILKEY '): ks.add(l[8:])
        if l.startswith('LOAD-FAILURE'): ks.add('LOAD-FAILURE '+l[:200])
    return ks
base=failing('/repo')
bad=0
for d in sys.argv[1:]:
    tmp=tempfile.mkdtemp(prefix='refrepo.')
    try:
        for f in subprocess.run(['git','-C','/repo','ls-files','-z'],capture_output=True).stdout.split(b'\0'):
            if not f: continue
            f=f.decode(); p=os.path.join(tmp,f); os.makedirs(os.path.dirname(p),exist_ok=True); shutil.copy(os.path.join('/repo',f),p)
        r=subprocess.run(['patch','-p1','-s','-f','-i',os.path.abspath(d)],cwd=tmp,capture_output=True,text=True)
        if r.returncode!=0:
            print('SKIP (does not apply)',d); continue
        new=sorted(failing(tmp)-base)
        if new:
            bad+=1; print('FALSE-ALARM',d); [print('    ',k[:200]) for k in new[:60]]
        else: print('quiet      ',d)
    finally: shutil.rmtree(tmp)
sys.exit(1 if bad else 0)
