#!/usr/bin/env python3-vt
import json, jsonschema, glob, sys
m = json.load(open('/verif/MANIFEST.json'))
jsonschema.validate(m, json.load(open('/root/.vp/MANIFEST.schema.json')))
es = json.load(open('/root/.vp/EVIDENCE.schema.json'))
bad = 0
for c in m['checks']:
    try:
        e = json.load(open(c['evidence_file']))
        jsonschema.validate(e, es)
        assert e['level'] == c['level_claimed']['category'], (e['level'], c['level_claimed']['category'])
    except Exception as ex:
        print('BAD', c['property_id'], str(ex)[:300]); bad += 1
ids = {c['property_id'] for c in m['checks']} | {n['property_id'] for n in m.get('not_applicable', [])}
want = {json.loads(l)['id'] for l in open('/verif/properties.jsonl')}
assert ids == want, (want - ids, ids - want)
print('manifest+evidence valid' if not bad else 'INVALID', len(m['checks']), 'checks')
sys.exit(1 if bad else 0)
