#!/bin/bash
# usage: process_mut10.sh <dir tag under /tmp/mut10> [<Cxx> [<offset>]] : confirm the two round-10 seeds of one sub-agent
tag=$1; id=${2:-$1}; off=${3:-0}
for k in 1 2; do
  d=/tmp/mut10/$tag/MUTATION/$k
  [ -f $d/patch.diff ] || { echo "$id-r10-$((k+off)): missing"; continue; }
  pkg=$(sed -n 1p $d/CMD.txt | tr -d ' \r'); run=$(sed -n 2p $d/CMD.txt | tr -d '\r'); l3=$(sed -n 3p $d/CMD.txt | tr -d '\r')
  t=$(echo "$l3" | sed 's/-race//; s/ //g'); extra=""; echo "$l3" | grep -q -- -race && extra="-race"
  /verif/tools/confirm_seed.sh $id-r10-$((k+off)) $d "$pkg" "$run" "$t" "$extra"
done
