#!/bin/bash
# usage: fa.sh <diff> <prop>[,<prop>] : apply a refactoring to a scratch copy (/tmp/fa, kept until the next call) and show the undischarged obligations
d=$(readlink -f "$1"); props=${2:-all}
export GOFLAGS=-mod=mod GOPROXY=off GOSUMDB=off GOTOOLCHAIN=local; unset GOWORK
rm -rf /tmp/fa && mkdir -p /tmp/fa /tmp/fav && git -C /repo archive HEAD | tar -x -C /tmp/fa && (cd /tmp/fa && patch -p1 -s -f < "$d") || { echo PATCH-FAILED; exit 3; }
cp /verif/known_findings.json /tmp/fav/
for p in ${props//,/ }; do /verif/bin/nfsverif -repo /tmp/fa -verif /tmp/fav -prop $p 2>&1 | grep -v "^  \|^VIOLATION\|^KNOWN" | cut -c1-${W:-330}; done
