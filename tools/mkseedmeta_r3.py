#!/usr/bin/env python3
"""Writes meta.json for the round-3 seeded changes (seeded/<Cxx>-r3-<k>/) from confirm.json, the matrix
(seeded/MATRIX.json, run tools/seed_matrix.py first) and the one-line descriptions below, and the
corresponding self-test variant variants/<Cxx>__seed_<id>.patch (expect-rule = a rule of the seed's own property)."""
import json, os, glob
props={json.loads(l)['id']:json.loads(l) for l in open('/verif/properties.jsonl')}
DESC={
'C01-r3-1':('fsstate.readBitmap reads the bitmaps straight from the disk instead of through the log','a crash between the log-header write and the installation of a bitmap block, a restart that reads before the installer catches up, then an allocation'),
'C01-r3-2':('timed_disk.Barrier records the timing but no longer calls the wrapped disk\'s Barrier','the -stats flag and a power failure on a disk with a volatile write cache'),
'C03-r3-1':('getInodesLocked answers NOENT instead of retrying when lookupOrdered fails','a child whose inode number is below the directory\'s and a RENAME over that name between the first look and the relock'),
'C03-r3-2':('doRemove unlocks the parent directory (ReleaseInode) before the commit','another operation on the same directory between RemName and the commit (the removed file has blocks to free)'),
'C04-r3-1':('dir.IsDirEmpty stops at the first free slot (continue and break swapped)','create two entries, remove the first, then RMDIR the directory or rename an empty directory onto it'),
'C04-r3-2':('RENAME checks IllegalName(To.Name) twice and never the source name','a RENAME whose source name is "." or ".."'),
'C05-r3-1':('WriteBits writes bitmap bits a byte at a time (read-modify-write of the whole byte without a lock)','two overlapping transactions that allocate or free neighbouring numbers'),
'C05-r3-2':('dir.IsDirEmpty stops at the first free slot (same mechanism as C04-r3-1, found independently)','see C04-r3-1'),
'C06-r3-1':('dir.Apply: the "already locked by me" test narrowed from OwnInum(de.inum) to de.inum == dip.Inum','a transaction holding two inode locks (RENAME between a directory and its parent) and a cold name cache'),
'C06-r3-2':('cross-directory RENAME validates only the source handle\'s generation after lockInodes','a stale target-directory handle whose inode number belongs to a live directory that holds the target name'),
'C07-r3-1':('Inode.Write logs the inode only when the file grows (forgets the block pointer of a filled hole)','a sparse file, a write into a hole below EOF, COMMIT, crash'),
'C07-r3-2':('WRITE: the DATA_SYNC arm deleted ("CommitData is just Commit"), DATA_SYNC falls into CommitUnstable','a DATA_SYNC write and a crash before anything else flushes the log'),
'C08-r3-1':('RENAME\'s self-rename exit hoisted above the handle validation','RENAME with a stale directory handle as both directories and the same name twice'),
'C08-r3-2':('AllocInode writes the new inode only for regular files','SYMLINK with an empty target, then a restart'),
'C09-r3-1':('WRITE stamps mtime on the cached inode before the write succeeds','a WRITE that cannot even start (full disk / beyond the maximum file size): nothing dirty, nothing allocated, Abort keeps the cache'),
'C09-r3-2':('FreeINum cancels a same-transaction allocation and forgets to return the number to the in-memory allocator','a create-type request that fails after AllocInode, then a nearly exhausted inode table'),
'C10-r3-1':('RENAME keeps the directory objects of its aborted first transaction (dipfrom/dipto not reassigned after the relock)','RENAME onto an existing name in one directory while a second client empties the cache slot in the unlocked window'),
'C10-r3-2':('SETATTR drops WriteInode after changing atime','SETATTR of atime only (touch -a), then a restart'),
'C11-r3-1':('Inode.Read allocates its buffer with the capacity of the client\'s unclamped count','READ with a count far larger than the file (up to 4 GiB per request)'),
'C11-r3-2':('dir.AddName drops its "is a directory" test','CREATE/MKDIR/SYMLINK/RENAME with the handle of a regular file with content as the directory'),
'C12-r3-1':('getShrink lets a WRITE that starts below EOF proceed while a shrink is pending','a pending large truncation, then a WRITE straddling the new EOF with an unaligned end, then grow and READ'),
'C12-r3-2':('RENAME onto an existing file frees the replaced inode without truncating it (doDecLink inlined without Resize(0))','RENAME over a non-empty file, reuse of that inode number, CREATE and READ'),
'C13-r3-1':('READDIR/READDIRPLUS refuse a cookie equal to the directory size (>= for >)','a page that fills exactly at the entry in the last slot'),
'C13-r3-2':('Apply/ApplyEnts hand the cookie to the callback, mkDcache still stores it as the slot offset','a rebuilt name cache (restart / eviction), then REMOVE or RENAME, then an enumeration'),
'C14-r3-1':('lookupOrdered releases the parent directory early but still returns it','REMOVE of an entry whose inode number is below its directory\'s, with a concurrent request on that directory (race detector)'),
'C14-r3-2':('SETATTR builds its "after" attributes after the commit released the lock','a concurrent WRITE on the same file right after SETATTR\'s release (race detector)'),
'C15-r3-1':('WriteBits addresses the bit with MkAddr(blk, n % NBITBLOCK): the bitmap block index is dropped','a disk larger than 32768 blocks, allocations beyond block 32768, restart'),
'C15-r3-2':('mkfs marks only the root inode (blk2[0] |= 1<<ROOTINUM), inode 0 stays free','the 32767th inode allocation since server start (allocator cursor wraps)'),
'C16-r3-1':('Dirpath3 is bounded by MNTNAMLEN3 (255) instead of MNTPATHLEN3 (1024)','a MOUNT path of 256..1024 bytes'),
'C16-r3-2':('FSINFO3resok encodes Rtmax in the rtpref word','an FSINFO result whose rtpref differs from rtmax'),
'C17-r3-1':('simple Inode.Write exempts a zero-byte write from the hole check','WRITE data, SETATTR size 0, empty WRITE beyond EOF, READ'),
'C17-r3-2':('simple SETATTR reads the inode before taking the lock (size-unchanged shortcut)','a size-setting SETATTR queued behind a size-changing request on the same file'),
'C18-r3-1':('MultiPut commits with CommitWait(false) followed by log.Flush()','another client\'s oversize multi-put between the commit and the flush, then a crash'),
'C18-r3-2':('MultiPut turns the out-of-range panic into a soft failure but still commits the prefix','a multi-put with valid keys followed by a key just outside the range'),
'C19-r3-1':('decodeDirEnt clamps a stored name length >= MAXNAMELEN to MAXNAMELEN-1','a name of exactly 112 bytes and a decode from disk (restart)'),
'C19-r3-2':('WRITE writes len(args.Data) bytes while the limits are tested on args.Count (demonstration adapted by one line to the repaired wtmax)','a request with a small count and an opaque body larger than wtmax'),
}
M=json.load(open('/verif/seeded/MATRIX.json'))['seeds']
for sid,(what,needs) in sorted(DESC.items()):
    d=f'/verif/seeded/{sid}'
    if not os.path.exists(d+'/confirm.json'): print('missing',sid); continue
    c=json.load(open(d+'/confirm.json'))
    prop=sid.split('-')[0]
    rules=M.get(sid,{}).get('rules',[])
    meta={'seed':sid,'property_broken':prop,'property_title':props[prop].get('title') or props[prop].get('name'),
      'change':what,'needs_to_manifest':needs,
      'source':'independent sub-agent (round 3) given only the property text, a list of changes already tried and a scratch worktree; change and demonstration re-confirmed by tools/confirm_seed.sh',
      'confirmed_against_commit':c['base_commit'],
      'what_was_run':{'build':f"go build ./... (exit {c['build_with_change_exit']})",'demonstration':c['demo_run'],
        'demo_exit_without_change':c['demo_without_change_exit'],'demo_exit_with_change':c['demo_with_change_exit'],
        'existing_suite_with_change':f"go test -vet=off -count=1 ./... (exit {c['existing_suite_with_change_exit']})"},
      'confirmed':c['confirmed'],'caught_by_rules':rules}
    json.dump(meta,open(d+'/meta.json','w'),indent=1)
    own=[r for r in rules if r.startswith(prop+'.')]
    if c['confirmed'] and own:
        p=open(d+'/patch.diff').read()
        open(f'/verif/variants/{prop}__seed_{sid}.patch','w').write(f'# seeded change {sid} (breaks {prop}; see /verif/seeded/{sid}/meta.json)\n# expect-rule: {own[0]}\n'+p)
    else:
        print('NOT CAUGHT BY OWN PROPERTY or unconfirmed:',sid,rules)
print('done')
