module automut

go 1.21
