// automut lists small syntactic mutations of the non-test Go files of a
// go-nfsd tree as byte-range replacements (JSON lines on stdout).  It is a
// tool for testing the checker (tools/automut.py runs the checks on every
// mutant); it is not part of any check.
package main

import (
	"encoding/json"
	"fmt"
	"go/ast"
	"go/parser"
	"go/token"
	"os"
	"path/filepath"
	"sort"
	"strings"
)

type Mut struct {
	ID   string `json:"id"`
	File string `json:"file"`
	Line int    `json:"line"`
	Func string `json:"func"`
	Op   string `json:"op"`
	From int    `json:"from"`
	To   int    `json:"to"`
	Repl string `json:"repl"`
	Old  string `json:"old"`
}

var skipDirs = map[string]bool{"cmd": true, "bench": true, "eval": true, "artifact": true, "vagrant": true, ".git": true}

func main() {
	root := os.Args[1]
	var files []string
	filepath.Walk(root, func(p string, info os.FileInfo, err error) error {
		if err != nil {
			return nil
		}
		rel, _ := filepath.Rel(root, p)
		if info.IsDir() {
			if skipDirs[strings.Split(rel, string(filepath.Separator))[0]] {
				return filepath.SkipDir
			}
			return nil
		}
		if strings.HasSuffix(p, ".go") && !strings.HasSuffix(p, "_test.go") {
			files = append(files, rel)
		}
		return nil
	})
	sort.Strings(files)
	enc := json.NewEncoder(os.Stdout)
	n := 0
	for _, rel := range files {
		src, err := os.ReadFile(filepath.Join(root, rel))
		if err != nil {
			continue
		}
		fset := token.NewFileSet()
		f, err := parser.ParseFile(fset, rel, src, parser.ParseComments)
		if err != nil {
			fmt.Fprintln(os.Stderr, "parse", rel, err)
			continue
		}
		off := func(p token.Pos) int { return fset.Position(p).Offset }
		emit := func(fn string, pos token.Pos, op string, from, to int, repl string) {
			n++
			old := string(src[from:to])
			if len(old) > 160 {
				old = old[:160] + "..."
			}
			enc.Encode(Mut{ID: fmt.Sprintf("m%05d", n), File: rel, Line: fset.Position(pos).Line, Func: fn, Op: op, From: from, To: to, Repl: repl, Old: old})
		}
		for _, d := range f.Decls {
			fd, ok := d.(*ast.FuncDecl)
			if !ok || fd.Body == nil {
				continue
			}
			name := fd.Name.Name
			if fd.Recv != nil && len(fd.Recv.List) > 0 {
				name = typeStr(fd.Recv.List[0].Type) + "." + name
			}
			ast.Inspect(fd.Body, func(nd ast.Node) bool {
				switch x := nd.(type) {
				case *ast.IfStmt:
					emit(name, x.Cond.Pos(), "negate-if", off(x.Cond.Pos()), off(x.Cond.End()), "!("+string(src[off(x.Cond.Pos()):off(x.Cond.End())])+")")
					if x.Else == nil && x.Init == nil && endsInJump(x.Body) {
						emit(name, x.Pos(), "drop-guard", off(x.Pos()), off(x.End()), "")
					}
					if x.Else != nil {
						// drop the else arm
						emit(name, x.Else.Pos(), "drop-else", off(x.Body.End()), off(x.Else.End()), "")
					}
				case *ast.ForStmt:
					if x.Cond != nil {
						emit(name, x.Cond.Pos(), "negate-for", off(x.Cond.Pos()), off(x.Cond.End()), "!("+string(src[off(x.Cond.Pos()):off(x.Cond.End())])+")")
					}
				case *ast.BinaryExpr:
					alt := map[token.Token][]string{
						token.LSS: {"<="}, token.LEQ: {"<"}, token.GTR: {">="}, token.GEQ: {">"},
						token.EQL: {"!="}, token.NEQ: {"=="}, token.LAND: {"||"}, token.LOR: {"&&"},
						token.ADD: {"-"}, token.SUB: {"+"}, token.MUL: {"/"}, token.QUO: {"*"}, token.REM: {"/"},
						token.SHL: {">>"}, token.SHR: {"<<"}, token.AND: {"|"}, token.OR: {"&"},
					}[x.Op]
					for _, a := range alt {
						emit(name, x.OpPos, "binop "+x.Op.String()+"->"+a, off(x.OpPos), off(x.OpPos)+len(x.Op.String()), a)
					}
				case *ast.ExprStmt:
					if call, ok := x.X.(*ast.CallExpr); ok && !isLog(call) {
						emit(name, x.Pos(), "drop-call", off(x.Pos()), off(x.End()), "")
					}
				case *ast.AssignStmt:
					if x.Tok != token.DEFINE {
						emit(name, x.Pos(), "drop-assign", off(x.Pos()), off(x.End()), "")
					}
				case *ast.IncDecStmt:
					emit(name, x.Pos(), "drop-incdec", off(x.Pos()), off(x.End()), "")
				case *ast.DeferStmt:
					if !isLog(x.Call) {
						emit(name, x.Pos(), "drop-defer", off(x.Pos()), off(x.End()), "")
						emit(name, x.Pos(), "undefer", off(x.Pos()), off(x.Pos())+len("defer"), "")
					}
				case *ast.GoStmt:
					emit(name, x.Pos(), "ungo", off(x.Pos()), off(x.Pos())+len("go"), "")
				case *ast.BranchStmt:
					if x.Label == nil {
						switch x.Tok {
						case token.BREAK:
							emit(name, x.Pos(), "break->continue", off(x.Pos()), off(x.End()), "continue")
						case token.CONTINUE:
							emit(name, x.Pos(), "continue->break", off(x.Pos()), off(x.End()), "break")
						}
					}
				case *ast.Ident:
					if x.Name == "true" {
						emit(name, x.Pos(), "true->false", off(x.Pos()), off(x.End()), "false")
					} else if x.Name == "false" {
						emit(name, x.Pos(), "false->true", off(x.Pos()), off(x.End()), "true")
					}
				case *ast.BasicLit:
					if x.Kind == token.INT {
						switch x.Value {
						case "0":
							emit(name, x.Pos(), "0->1", off(x.Pos()), off(x.End()), "1")
						case "1":
							emit(name, x.Pos(), "1->0", off(x.Pos()), off(x.End()), "0")
							emit(name, x.Pos(), "1->2", off(x.Pos()), off(x.End()), "2")
						default:
							emit(name, x.Pos(), "n->n+1", off(x.Pos()), off(x.End()), "("+x.Value+"+1)")
							emit(name, x.Pos(), "n->n-1", off(x.Pos()), off(x.End()), "("+x.Value+"-1)")
						}
					}
				case *ast.CallExpr:
					if isLog(x) {
						return false
					}
					for i := 0; i+1 < len(x.Args); i++ {
						a, b := x.Args[i], x.Args[i+1]
						if simple(a) && simple(b) {
							sa, sb := string(src[off(a.Pos()):off(a.End())]), string(src[off(b.Pos()):off(b.End())])
							if sa != sb {
								emit(name, a.Pos(), "swap-args", off(a.Pos()), off(b.End()), sb+", "+sa)
							}
						}
					}
				case *ast.ReturnStmt:
					// return of an error constant replaced by success is covered by the seeds; here: nothing
				}
				return true
			})
		}
	}
	fmt.Fprintln(os.Stderr, "mutants:", n)
}

func simple(e ast.Expr) bool {
	switch x := e.(type) {
	case *ast.Ident:
		return x.Name != "nil" && x.Name != "true" && x.Name != "false"
	case *ast.SelectorExpr:
		return simple(x.X)
	}
	return false
}

func endsInJump(b *ast.BlockStmt) bool {
	if len(b.List) == 0 {
		return false
	}
	switch x := b.List[len(b.List)-1].(type) {
	case *ast.ReturnStmt:
		return true
	case *ast.BranchStmt:
		return x.Tok == token.BREAK || x.Tok == token.CONTINUE
	case *ast.ExprStmt:
		if c, ok := x.X.(*ast.CallExpr); ok {
			if id, ok := c.Fun.(*ast.Ident); ok && id.Name == "panic" {
				return true
			}
		}
	}
	return false
}

func isLog(c *ast.CallExpr) bool {
	if s, ok := c.Fun.(*ast.SelectorExpr); ok {
		if id, ok := s.X.(*ast.Ident); ok {
			switch id.Name + "." + s.Sel.Name {
			case "util.DPrintf", "log.Printf", "log.Println", "fmt.Printf", "fmt.Println", "fmt.Fprintf", "fmt.Fprintln":
				return true
			}
		}
	}
	return false
}

func typeStr(e ast.Expr) string {
	switch x := e.(type) {
	case *ast.StarExpr:
		return typeStr(x.X)
	case *ast.Ident:
		return x.Name
	case *ast.IndexExpr:
		return typeStr(x.X)
	}
	return "?"
}
