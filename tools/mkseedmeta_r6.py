#!/usr/bin/env python3
"""Writes meta.json for the round-6 seeded changes (seeded/<Cxx>-r6-<k>/) from confirm.json, the matrix
(seeded/MATRIX.json, run tools/seed_matrix.py first) and the one-line descriptions below, and the
corresponding self-test variant variants/<Cxx>__seed_<id>.patch (expect-rule = a rule of the seed's own property)."""
import json, os, glob
props={json.loads(l)['id']:json.loads(l) for l in open('/verif/properties.jsonl')}
DESC={
'C01-r6-1':('readBitmap computes the block address once before its loop: the restarted server builds its allocators from copies of the first bitmap block','a disk with more than one block-bitmap block (> 32768 blocks), data above block 32768, a restart, then new allocations: an acknowledged stable WRITE overwrites committed blocks of another file'),
'C01-r6-2':('freeIndex no longer clears the slot of the block it frees (ip.blks[index] = 0 dropped): a shrunk inode keeps the numbers of freed blocks','REMOVE or truncation, a restart (allocators start low again), CREATE reusing the inode number plus another allocating file: two files share blocks'),
'C03-r6-1':('the inode cache recycles the entry it evicts (evict returns the entry, LookupSlot reuses it) instead of allocating a fresh one','more than 100 inodes in use and a cold inode read parked while 100 other misses evict and recycle its entry: inode X is stored into inode Y\'s slot'),
'C03-r6-2':('READ serves a request longer than rtmax in several transactions, releasing the inode lock in between','a READ with count > 64 KB and a conflicting WRITE that wins the lock in the gap: the reply mixes two states of the file'),
'C04-r6-1':('getAlloc ends the transaction with Commit instead of Abort when AllocInode hands back an inode that is still being freed','a crash while a big file is being freed, restart, CREATE: an inode with Kind 0 stays marked allocated for ever'),
'C04-r6-2':('readBitmap reads bitmap block 0 for every block (the loop index dropped from the address)','a 40000-block disk, data beyond block 32768, restart, new allocations: two owners of the same blocks'),
'C05-r6-1':('RemNameDir trims the directory by lowering Size directly when the removed entry is the last slot','a sub-directory grown past one block, entries removed newest first, then RMDIR: one block is never freed'),
'C05-r6-2':('readBitmap hoists the block address out of its loop (every bitmap block is a copy of the first)','a disk of more than 32768 blocks and a restart: free blocks are refused, blocks in use look free'),
'C06-r6-1':('RENAME onto an existing name keeps its directory locks across the relock (the Abort/Begin pair before lockInodes dropped)','a directory with lower-numbered children, RENAME onto an existing name and a concurrent ordered LOOKUP of it: deadlock'),
'C06-r6-2':('RENAME answers NOENT for a missing source only when the target is missing too','a retransmitted RENAME a->b (source gone, target exists): the null number is relocked for ever, the RPC never returns'),
'C07-r6-1':('a SETATTR that sets neither size nor mtime is committed with CommitUnstable','an atime-only SETATTR and a crash before anything else flushes the log: the acknowledged change, and the unstable writes before it, are lost'),
'C07-r6-2':('the stable_how constants UNSTABLE and DATA_SYNC exchange their values (1 and 0)','a network client\'s DATA_SYNC write with the unstable option on, then a crash: acknowledged as DATA_SYNC, committed asynchronously'),
'C08-r6-1':('REMOVE ends its transaction with CommitUnstable instead of commitReply','a crash after the REMOVE reply and before the next flush: the name is back and the handle that answered STALE is valid again'),
'C08-r6-2':('cross-directory RENAME onto an existing name takes the target from inodes[2] (the source) instead of inodes[3]','RENAME between two directories over an existing name: the renamed object is freed, the replaced one keeps a valid handle for ever'),
'C09-r6-1':('Inode.Write logs the inode only when a block was linked or the file grew, and dropInodes skips inodes without a dirty inode buffer','a RENAME that fails after its RemName (new name too long): the source name is gone from the cached directory although the reply is an error'),
'C09-r6-2':('errRet does not abort when the status is NFS3ERR_STALE','a cross-directory RENAME with a stale directory handle whose inode number is live again: STALE is returned with both directories still locked'),
'C10-r6-1':('Resize writes the inode only when it raised ShrinkSize (WriteInode moved into the if)','a second size change within the same block count, no later WRITE, restart: the old size and bytes are back'),
'C10-r6-2':('CommitData calls CommitFh instead of Commit: the transaction\'s own buffers never reach the journal','a WRITE with DATA_SYNC: acknowledged, visible in the running server, gone after a restart'),
'C11-r6-1':('dir.LookupName builds the name cache before it checks that the inode is a directory','LOOKUP/CREATE/REMOVE/RENAME with a file or symlink handle as the directory: file bytes are decoded as entries, the server panics'),
'C11-r6-2':('ApplyEnts no longer steps over a free slot (off = off + DIRENTSZ dropped before continue)','a removed name whose slot is not reused, then plain READDIR: the scan never ends and keeps the directory locked'),
'C12-r6-1':('Resize clears the tail of the last kept block only when it grows the file, no longer when it shrinks to an unaligned size','data, SETATTR to a smaller unaligned size, then a WRITE beyond the new end: old bytes reappear between the old end and the write'),
'C12-r6-2':('the blocks of a removed directory are freed without zeroing (FreeBlockClean through freeIndex)','MKDIR, RMDIR, restart or allocator wrap-around, then a file that leaves the start of the recycled block unwritten'),
'C13-r6-1':('dir.Apply releases the listed directory to lock a lower-numbered child and locks it again afterwards','a non-root directory and another RPC changing it while READDIRPLUS waits for "..": removed names are returned, the freed inode is dereferenced'),
'C13-r6-2':('RENAME over an existing name no longer removes the target\'s old entry (RemName(dipto, To.Name) dropped)','RENAME onto an existing name, then READDIR: the name is listed twice, once with a freed inode'),
'C14-r6-1':('encodeDirEnt encodes into one package-level scratch buffer (marshal.NewEncFromSlice(entBuf))','two handlers adding or removing names in two different directories at once: one writes the other\'s entry'),
'C14-r6-2':('LookupSlot reuses the cache entry that evict removes','more than 100 inodes in use and a cold read parked during 100 other lookups: two handlers use one slot under different inode locks'),
'C15-r6-1':('readBitmap never advances its block address: every bitmap block of the in-memory allocator is a copy of the first','a disk with two or more block-bitmap blocks, filled: data blocks are never handed out, and block "size" is handed out (panic)'),
'C15-r6-2':('markAlloc refuses only disks smaller than the start of the inode table (m < InodeStart()) instead of smaller than DataStart','a disk of 516..1538 blocks: formatted with the inode table running past the end of the disk'),
'C16-r6-1':('the GETATTR dispatch wrapper keeps its reply in the shared wrapper object and returns its address','two GETATTR calls in flight: the bytes sent for one carry the other\'s attributes'),
'C16-r6-2':('createverf3 is coded as a variable-length opaque (XdrVarArray) instead of a fixed one','CREATE with mode EXCLUSIVE on the wire: GARBAGE_ARGS or a mis-parsed verifier'),
'C17-r6-1':('simple inodeInit stops one inode short (i < nInode()-1): the last file keeps Data = 0','the last file is written: its data lives in block 0, the header of the write-ahead log'),
'C17-r6-2':('simple MakeFh decodes the inode number with GetInt32 while MakeFh3 still writes 8 bytes','a forged handle whose number differs from a file\'s by a multiple of 2^32 passes validInum as that file'),
'C18-r6-1':('Get answers from a sync.Map read cache that it fills after an unprotected read; MultiPut deletes its keys after the commit','a whole MultiPut between the read and the cache fill of one Get of the same key: the old value is served for ever'),
'C18-r6-2':('Get returns a zero block without reading for keys not in a volatile "stored" set that MultiPut fills','a restart: every durable key reads as zeroes until it is put again'),
'C19-r6-1':('Inode.Read tests "at or past EOF" only inside the clamp branch (offset+count >= Size)','a READ whose offset+count wraps around 2^64: bmap is called with a huge block number and panics'),
'C19-r6-2':('the name-length limit of AddName/RemName counts characters (utf8.RuneCountInString) instead of bytes','a UTF-8 name of at most 112 characters but more than 112 bytes: stored truncated, every later decode of the entry panics'),
}
M=json.load(open('/verif/seeded/MATRIX.json'))['seeds']
for sid,(what,needs) in sorted(DESC.items()):
    d=f'/verif/seeded/{sid}'
    if not os.path.exists(d+'/confirm.json'): print('missing',sid); continue
    c=json.load(open(d+'/confirm.json'))
    prop=sid.split('-')[0]
    rules=M.get(sid,{}).get('rules',[])
    meta={'seed':sid,'property_broken':prop,'property_title':props[prop].get('title') or props[prop].get('name'),
      'change':what,'needs_to_manifest':needs,
      'source':'independent sub-agent (round 6) given only the property text, a list of changes already tried and a scratch worktree; change and demonstration re-confirmed by tools/confirm_seed.sh',
      'confirmed_against_commit':c['base_commit'],
      'what_was_run':{'build':f"go build ./... (exit {c['build_with_change_exit']})",'demonstration':c['demo_run'],
        'demo_exit_without_change':c['demo_without_change_exit'],'demo_exit_with_change':c['demo_with_change_exit'],
        'existing_suite_with_change':f"go test -vet=off -count=1 ./... (exit {c['existing_suite_with_change_exit']})"},
      'confirmed':c['confirmed'],'caught_by_rules':rules}
    json.dump(meta,open(d+'/meta.json','w'),indent=1)
    own=[r for r in rules if r.startswith(prop+'.')]
    if c['confirmed'] and own:
        p=open(d+'/patch.diff').read()
        open(f'/verif/variants/{prop}__seed_{sid}.patch','w').write(f'# seeded change {sid} (breaks {prop}; see /verif/seeded/{sid}/meta.json)\n# expect-rule: {own[0]}\n'+p)
    else:
        print('NOT CAUGHT BY OWN PROPERTY or unconfirmed:',sid,rules)
print('done')
