#!/bin/bash
# usage: mkcombo.sh <refactor.diff> <sed-or-python script file> <out variant> <header line 1> <expect rule>
# builds a variant = behaviour-preserving refactoring + one mutation on top of it (a patch against /repo HEAD)
set -e
ref=$(readlink -f "$1"); mut=$(readlink -f "$2"); out=$(readlink -f -m "$3"); hdr="$4"; rule="$5"
t=$(mktemp -d /tmp/combo.XXXXXX); trap 'rm -rf "$t"' EXIT
mkdir -p $t/a $t/b; git -C /repo archive HEAD | tar -x -C $t/a; cp -r $t/a/. $t/b/
(cd $t/b && patch -p1 -s -f < "$ref" && python3 "$mut" "$t/b")
export GOFLAGS=-mod=mod GOPROXY=off GOSUMDB=off GOTOOLCHAIN=local; unset GOWORK
(cd $t/b && go build ./... ) || { echo BUILD-FAILED; exit 4; }
{ echo "# variant (hand-made, on top of refactoring $(basename $ref .diff)): $hdr"; echo "# expect-rule: $rule"; (cd $t && diff -ruN a b | sed 's|^--- a/|--- a/|; s|^+++ b/|+++ b/|' | grep -v '^diff -ruN' ) ; } > "$out"
echo wrote $out
