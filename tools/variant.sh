#!/bin/bash
# usage: variant.sh <patch> <prop>[,<prop>...]   -- run the checker on a scratch copy of /repo with the patch applied
# prints the checker's output; exit 0 if the checker FIRED (exit 1 from checker) on every listed property... informational.
set -u
patch=$(readlink -f "$1"); props=${2:-all}
export GOFLAGS=-mod=mod GOPROXY=off GOSUMDB=off GOTOOLCHAIN=local; unset GOWORK
tmp=$(mktemp -d /tmp/nfsvar.XXXXXX)
trap 'rm -rf "$tmp"' EXIT
mkdir -p "$tmp/repo" "$tmp/verif"
(cd /repo && git ls-files -z | xargs -0 cp --parents -t "$tmp/repo") 
cp /verif/known_findings.json "$tmp/verif/" 2>/dev/null
if ! (cd "$tmp/repo" && patch -p1 -s < "$patch"); then echo "PATCH-FAILED $patch"; exit 3; fi
if [ "${BUILD:-0}" = 1 ]; then (cd "$tmp/repo" && go build ./... ) || { echo "BUILD-FAILED"; exit 4; }; fi
rc=0
for p in ${props//,/ }; do
  /verif/bin/nfsverif -repo "$tmp/repo" -verif "$tmp/verif" -prop "$p" | sed "s|$tmp/repo/||g; s|$tmp/verif|VERIF|g"
  r=${PIPESTATUS[0]}; echo "[$p exit=$r]"
done
