#!/usr/bin/env python3
"""Writes meta.json for the round-2 seeded changes (seeded/<Cxx>-r2-<k>/) from confirm.json, the matrix
(seeded/MATRIX.json, run tools/seed_matrix.py first) and the one-line descriptions below, and the
corresponding self-test variant variants/<Cxx>__seed_<id>.patch (expect-rule = a rule of the seed's own property)."""
import json, os, glob
props={json.loads(l)['id']:json.loads(l) for l in open('/verif/properties.jsonl')}
DESC={
'C01-r2-1':('WRITE: the upgrade of the stability level under -unstable=false moved after the commit dispatch','server started with the unstable option off, an UNSTABLE write, no later flush, then a crash'),
'C01-r2-2':('doCreate writes the symlink target through beginOp.Atxn, the transaction getAlloc may have replaced','a crash in the middle of a large removal, restart, and the first create reusing the half-shrunk inode number is a SYMLINK'),
'C03-r2-1':('LockInode looks up the inode-cache slot before taking the lock','lock contention on one inode while more than 100 other inodes are touched (slot evicted), a later request overtaking the waiter'),
'C03-r2-2':('Abort drops the cached inodes only when the transaction has dirty buffers AND allocations (&& for ||)','a request that fails after writing without allocating (RENAME to an over-long name), then an operation on the same directory'),
'C04-r2-1':('LockInode looks up the inode-cache slot before taking the lock (same mechanism as C03-r2-1, found independently)','see C03-r2-1'),
'C04-r2-2':('doRemove drops the parent link only when the procedure is RMDIR (isdir) instead of when the object is a directory','REMOVE (not RMDIR) of an empty directory, then removal of its parent'),
'C05-r2-1':('indshrink returns early on a hole and answers "keep the root" even for the first slot','a sparse file whose first slot of an indirect block is a hole, removed'),
'C05-r2-2':('same narrowing as C04-r2-2, seen from reclamation (the parent directory is never freed)','see C04-r2-2'),
'C06-r2-1':('lockInodes sorts with a comparator indexing the unsorted input (returns defect D8)','RENAME over an existing target whose four inode numbers are not already ascending, run concurrently with the opposite rename'),
'C06-r2-2':('commitWait returns early (PostAbort) when the journal refuses the commit and skips releaseInodes','a transaction larger than the log (huge WRITE), then any request on the same inode'),
'C08-r2-1':('Abort releases the inode locks before dropping the cached inodes (dropInodes then ranges over an empty map)','MKDIR that fails in AddName after incrementing the parent count; later RMDIR of the parent leaves its handle valid'),
'C08-r2-2':('getAlloc resolves the directory handle once, outside its retry loop','CREATE that has to help a pending shrink while another client removes the directory'),
'C09-r2-1':('LockInode looks up the inode-cache slot before taking the lock (same mechanism as C03-r2-1, found independently)','a failing RENAME, a second request queued on the same lock, more than 100 other inodes touched in between'),
'C09-r2-2':('dropInodes re-reads the inode through the aborting transaction instead of clearing the slot','MKDIR of an over-long name in a sub-directory (parent count incremented, then AddName refuses), later RMDIR of that sub-directory'),
'C10-r2-1':('commitWait releases the inode locks before the synchronous journal commit','two requests on one inode interleaved between the lock release and the journal append, then a restart'),
'C10-r2-2':('getAlloc begins the new transaction only after a failed DoShrink: the normal retry reuses the aborted transaction','crash during a large removal, restart, CREATE handed the half-shrunk inode number, restart again'),
'C11-r2-1':('doRemove decrements the parent link count without the floor test Nlink > 1','MKDIR p, MKDIR x, RENAME x -> p/x, RMDIR p/x, then any request on p (panic in GetInodeInum, also after restart)'),
'C11-r2-2':('lockInodes no longer aborts the transaction when an inode has vanished','the rename target is removed in the window in which RENAME holds no lock'),
'C07-r2-1':('COMMIT with count == 0 takes a fast path through commitReply and never reaches CommitFh','UNSTABLE writes, COMMIT with count 0 (= to the end of the file), crash'),
'C07-r2-2':('WRITE upgrades the reported stability level after choosing the commit mode (same site as C01-r2-1, found independently)','server with -unstable=false, UNSTABLE write, crash'),
'C12-r2-1':('Resize clears the tail of the last kept block only when the shrink frees a block','write, truncate to an unaligned size inside the same block, grow again over that region'),
'C12-r2-2':('Abort: dropInodes moved after releaseInodes/PostAbort (ranges over an empty map)','WRITE that fails with one free block left after taking it as indirect block; the block becomes another file\'s data; rewrite of the first file'),
'C13-r2-1':('dir.Apply computes eof = off+DIRENTSZ >= dip.Size when a page fills up (off was already advanced)','READDIRPLUS page ending exactly one slot before the end with the last slot occupied'),
'C13-r2-2':('dir.ApplyEnts charges freed slots against the reply budget','many neighbouring removals and a READDIR count small relative to the run of freed slots'),
'C14-r2-1':('DoShrink decides "more?" with ip.IsShrinking() after Commit released the lock','multi-round background shrink and another request on the same inode; visible to the race detector only'),
'C14-r2-2':('stats.WriteTable snapshots the counters with a plain copy() instead of atomic loads','a statistics dump while requests are in flight (race detector)'),
'C15-r2-1':('BitmapInodeStart = BitmapBlockStart + NInodeBitmap (copy-paste of the wrong field)','a disk of at least 32768 blocks, filled or restarted'),
'C15-r2-2':('markAlloc marks the tail of the last bitmap block a byte at a time and forgets the high bits of the shared byte','a disk size that is not a multiple of 8, filled to the very last block'),
'C16-r2-1':('the LINK dispatch wrapper tests args.Error() but returns (nil, nil): the decode error is swallowed','a truncated or malformed LINK call'),
'C16-r2-2':('Mknoddata3.Xdr loses its NF3SOCK arm (falls into default: void)','a MKNOD request / value of type socket'),
'C17-r2-1':('simple SETATTR records a larger size without zero-filling the new range','WRITE, SETATTR smaller, SETATTR larger, READ'),
'C17-r2-2':('simple inodeInit builds fresh inodes instead of rewriting the ones it read','crash or shutdown followed by a restart through MakeNfs on the same disk'),
'C18-r2-1':('MultiPut drops the commit result and returns true','a single multi-put of more than 511 keys (does not fit the journal)'),
'C18-r2-2':('MultiPut skips pairs whose stored value already equals the new one (unlocked read-check-write)','two concurrent multi-puts on overlapping keys with a particular prior state'),
'C19-r2-1':('SETATTR compares RoundUp(size) in blocks with the limit: sizes within 4095 of 2^64 wrap to 0','SETATTR with a size in [2^64-4095, 2^64-1]'),
'C19-r2-2':('name-length check moved from dir.AddName into doCreate, RENAME left unguarded','RENAME to a name longer than 112 bytes, then a directory scan or restart'),
}
M=json.load(open('/verif/seeded/MATRIX.json'))['seeds']
for sid,(what,needs) in sorted(DESC.items()):
    d=f'/verif/seeded/{sid}'
    if not os.path.exists(d+'/confirm.json'): print('missing',sid); continue
    c=json.load(open(d+'/confirm.json'))
    prop=sid.split('-')[0]
    rules=M.get(sid,{}).get('rules',[])
    meta={'seed':sid,'property_broken':prop,'property_title':props[prop].get('title') or props[prop].get('name'),
      'change':what,'needs_to_manifest':needs,
      'source':'independent sub-agent (round 2) given only the property text, a list of changes already tried and a scratch worktree; change and demonstration re-confirmed by tools/confirm_seed.sh',
      'confirmed_against_commit':c['base_commit'],
      'what_was_run':{'build':f"go build ./... (exit {c['build_with_change_exit']})",'demonstration':c['demo_run'],
        'demo_exit_without_change':c['demo_without_change_exit'],'demo_exit_with_change':c['demo_with_change_exit'],
        'existing_suite_with_change':f"go test -vet=off -count=1 ./... (exit {c['existing_suite_with_change_exit']})"},
      'confirmed':c['confirmed'],'caught_by_rules':rules}
    json.dump(meta,open(d+'/meta.json','w'),indent=1)
    own=[r for r in rules if r.startswith(prop+'.')]
    if c['confirmed'] and own:
        p=open(d+'/patch.diff').read()
        open(f'/verif/variants/{prop}__seed_{sid}.patch','w').write(f'# seeded change {sid} (breaks {prop}; see /verif/seeded/{sid}/meta.json)\n# expect-rule: {own[0]}\n'+p)
    else:
        print('NOT CAUGHT BY OWN PROPERTY or unconfirmed:',sid,rules)
print('done')
