#!/usr/bin/env python3
"""automut_patch.py <results.jsonl> <id> : print the mutant as a unified diff (against AUTOMUT_SRC, default /repo)."""
import json,sys,os,difflib
SRC=os.environ.get('AUTOMUT_SRC','/repo')
for l in open(sys.argv[1]):
    try: m=json.loads(l)
    except Exception: continue
    if m['id']==sys.argv[2]:
        src=open(os.path.join(SRC,m['file']),'rb').read()
        new=src[:m['from']]+m['repl'].encode()+src[m['to']:]
        a=src.decode().splitlines(keepends=True); b=new.decode().splitlines(keepends=True)
        sys.stdout.write('diff --git a/%s b/%s\n'%(m['file'],m['file']))
        sys.stdout.writelines(difflib.unified_diff(a,b,'a/'+m['file'],'b/'+m['file']))
        break
