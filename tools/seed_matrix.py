#!/usr/bin/env python3
"""For every confirmed seeded change under /verif/seeded/<id>/ apply patch.diff to a scratch copy of /repo,
run all checks on it (one process) and record which rules report NEW failing obligations (not failing on the
unchanged tree).  Writes /verif/seeded/MATRIX.json and MATRIX.md.  Scratch copies are removed at once."""
import json, os, subprocess, tempfile, shutil, glob, sys, re
env=dict(os.environ, GOFLAGS='-mod=mod', GOPROXY='off', GOSUMDB='off', GOTOOLCHAIN='local', NFSVERIF_NESTED='1')
env.pop('GOWORK',None)
def failing(repo):
    v=tempfile.mkdtemp(prefix='seedverif.')
    shutil.copy('/verif/known_findings.json', v)
    out=subprocess.run(['/verif/bin/nfsverif','-repo',repo,'-verif',v,'-prop','all'],capture_output=True,text=True,env=env).stdout
    shutil.rmtree(v)
    keys=set()
    for l in out.split('\n'):
        if l.startswith('FAILKEY '): keys.add(l[8:])
        if l.startswith('LOAD-FAILURE'): keys.add('LOAD-FAILURE|'+l[:100])
    return keys
base=failing('/repo')
rows={}
ONLY=os.environ.get('ONLY','')   # e.g. ONLY=-r9- : re-evaluate only the seeds whose id contains it, keep the other rows
if ONLY and os.path.exists('/verif/seeded/MATRIX.json'):
    rows=json.load(open('/verif/seeded/MATRIX.json'))['seeds']
for d in sorted(glob.glob('/verif/seeded/*/')):
    sid=os.path.basename(d.rstrip('/'))
    if ONLY and not re.search(ONLY, sid): continue
    cj=os.path.join(d,'confirm.json')
    if not os.path.exists(cj): continue
    conf=json.load(open(cj))
    tmp=tempfile.mkdtemp(prefix='seedrepo.')
    try:
        files=subprocess.run(['git','-C','/repo','ls-files','-z'],capture_output=True).stdout.split(b'\0')
        for f in files:
            if not f: continue
            f=f.decode(); p=os.path.join(tmp,f); os.makedirs(os.path.dirname(p),exist_ok=True); shutil.copy(os.path.join('/repo',f),p)
        r=subprocess.run(['patch','-p1','-s','-f','-i',os.path.join(d,'patch.diff')],cwd=tmp,capture_output=True,text=True)
        if r.returncode!=0 and os.path.exists(os.path.join(d,'patch.rebased.diff')):
            # the confirmed patch predates a later fix: commit touching the same lines; a hand-rebased copy of the same change
            subprocess.run(['git','-C','/repo','checkout-index','-a','-f','--prefix='+tmp+'/'],capture_output=True)
            for rej in glob.glob(tmp+'/**/*.rej',recursive=True)+glob.glob(tmp+'/**/*.orig',recursive=True): os.remove(rej)
            r=subprocess.run(['patch','-p1','-s','-f','-i',os.path.join(d,'patch.rebased.diff')],cwd=tmp,capture_output=True,text=True)
        if r.returncode!=0:
            rows[sid]={'confirmed':conf.get('confirmed'),'applies':False,'rules':[]}; continue
        new=sorted(failing(tmp)-base)
        rules=sorted({k.split('|')[0] for k in new})
        rows[sid]={'confirmed':conf.get('confirmed'),'applies':True,'rules':rules,'keys':new[:6]}
    finally:
        shutil.rmtree(tmp)
json.dump({'baseline_failing':sorted(base),'seeds':rows},open('/verif/seeded/MATRIX.json','w'),indent=1)
with open('/verif/seeded/MATRIX.md','w') as f:
    f.write('| seed | confirmed on the repaired tree | rules that fire (new failing obligations) |\n|---|---|---|\n')
    for sid,r in sorted(rows.items()):
        f.write(f"| {sid} | {r['confirmed']} | {', '.join(r['rules']) if r['rules'] else ('(patch does not apply)' if not r['applies'] else 'NONE')} |\n")
print(open('/verif/seeded/MATRIX.md').read())
