#!/usr/bin/env python3
"""Writes meta.json for the round-7 seeded changes (seeded/<Cxx>-r7-<k>/) from confirm.json, the matrix
(seeded/MATRIX.json, run tools/seed_matrix.py first) and the one-line descriptions below, and the
corresponding self-test variant variants/<Cxx>__seed_<id>.patch (expect-rule = a rule of the seed's own property)."""
import json, os, glob
props={json.loads(l)['id']:json.loads(l) for l in open('/verif/properties.jsonl')}
DESC={
'C01-r7-1':('FsTxn.Abort writes the aborted transaction\'s dirty buffers to the journal (CommitWait(false) before dropping the cached inodes)','an operation that fails after it has started writing (RENAME to a 113-byte name) followed by a flush: the half-done operation is durable'),
'C01-r7-2':('a SETATTR that leaves the freeing to the background shrinker ends with CommitUnstable and answers OK','a truncation too large for one transaction and a power cut right after the reply: the acknowledged truncation is lost'),
'C03-r7-1':('getAlloc looks the name up only on its first attempt (a checked flag skips dir.LookupName on the retry after helping the shrinker)','the allocator hands CREATE an inode that is still being freed, and another client creates the same name while the request helps the shrinker: both are acknowledged, the name is listed twice'),
'C03-r7-2':('doDecLink skips Resize(0) when the inode is already shrinking','a truncation to a non-zero size still in progress, REMOVE before the shrinker\'s last round, reuse of the inode number: the new file has the old size and data'),
'C12-r7-1':('the partial-block arm of Inode.Write copies the whole remaining request buffer (copy(buffer.Data[byteoff:], data))','a WRITE with count < len(data) ending inside a block, then growth over that block: bytes behind the count read back'),
'C12-r7-2':('Inode.Read keeps its result buffer in the cached inode (ip.rbuf) and reuses it','two READs of one file, the second before the first reply is encoded: a hole reads as another READ\'s data'),
'C05-r7-1':('postCommit(durable) runs AllocTxn.PostCommit only for synchronous commits: frees of an unstable commit never return to the in-memory allocator','an UNSTABLE WRITE cut short by a full disk right after indbmap gave back an index block: memory and disk disagree about one block until restart'),
'C05-r7-2':('Inode.IsShrinking answers "no" when the eight direct and the indirect pointer are null, without looking at the doubly indirect one','a sparse file with data only beyond block 520, removed or truncated: nothing is freed, for ever'),
'C06-r7-1':('lockInodes sorts its numbers in descending order','LOOKUP/REMOVE in a directory racing a RENAME onto an existing name: each holds what the other wants'),
'C06-r7-2':('GetInodeFh calls doneInode instead of ReleaseInode on a generation mismatch: the inode leaves the transaction but stays locked','a stale handle of a reused inode number: the first request answers STALE, every later request on that inode hangs'),
'C07-r7-1':('the UNSTABLE arm of WRITE runs op.CommitUnstable() in a goroutine','an acknowledged UNSTABLE write to x, a stable write to y that overtakes the background commit, a crash: a hole in the acknowledged order'),
'C07-r7-2':('CommitFh flushes only if FsState.FlushMu.TryLock() succeeds; otherwise it waits for the other flush and answers OK','two overlapping COMMITs with an UNSTABLE write acknowledged in between, then a crash'),
'C08-r7-1':('InitInode wipes a recycled inode that still carries a name cache (*ip = Inode{blks: ip.blks}): Gen restarts at 1','a removed directory whose inode is reused while still cached (full inode table): the handle of the number\'s first life is valid again'),
'C08-r7-2':('lockInodes stops filling positions after the first match (break in the position loop)','a cross-directory RENAME given the stale and the live handle of one reused directory number: nil dereference instead of STALE'),
'C09-r7-1':('cross-directory RENAME releases the source directory between RemName and AddName','the final AddName is refused (name too long): the source directory, already changed in place, is not dropped by the abort'),
'C09-r7-2':('SETATTR applies the times before it validates the size and writes the inode once at the end','a SETATTR with times and a refused size: the refused request changes atime/mtime'),
'C10-r7-1':('ReleaseInode re-installs the inode into an empty cache slot','an operation that fails after modifying a cached directory: Abort empties the slot, the release puts the modified object back'),
'C10-r7-2':('READ stamps the access time on the cached inode without writing it','a READ, no later write of that inode, then a restart or eviction: the attributes change'),
'C11-r7-1':('fh.MakeFh refuses only handles shorter than 8 bytes','a handle of 8..15 bytes: the generation is decoded past the end, the server panics'),
'C11-r7-2':('READDIRPLUS no longer checks that its handle names a directory','READDIRPLUS on a file or symlink handle: client bytes are decoded as directory entries, the server panics'),
'C13-r7-1':('Readdir3\'s callback stops appending after 1024 entries','a directory with more than 1024 entries listed with a large count: eof is reported, the rest is never returned'),
'C13-r7-2':('READDIRPLUS stores the listing in the reply only when it has entries','a page with no entry behind the cookie: OK without eof, the client asks again for ever'),
'C14-r7-1':('LookupSlot calls evict after releasing the cache mutex','more than 100 inodes in use and concurrent lookups: the LRU list and the map are changed without the lock'),
'C14-r7-2':('getShrink returns the inode of the aborted transaction after helping the shrinker (break instead of retry)','WRITE or SETATTR on a file whose truncation is pending: the inode is used without its lock'),
'C15-r7-1':('markAlloc computes the bitmap block of the tail marks from n instead of m','a disk of 32768 blocks or more: data blocks are marked used, blocks beyond the end are free'),
'C15-r7-2':('MkFsSuper sizes the block bitmap as ceil(size/NBITBLOCK) instead of size/NBITBLOCK + 1','a disk whose size is an exact multiple of 32768 blocks: markAlloc refuses it'),
'C16-r7-1':('Nfs_fh3.Xdr refuses handles shorter than 16 bytes when decoding','a well-formed call with a short handle: GARBAGE_ARGS instead of reaching its handler'),
'C16-r7-2':('the failure arm of SETATTR3res encodes and decodes the Resok member','a non-OK SETATTR result with wcc_data: 12 bytes on the wire instead of 120'),
'C17-r7-1':('simple validInum loses its ROOTINUM test','WRITE/SETATTR/READ/COMMIT with the root handle: the root directory becomes a 31st file'),
'C17-r7-2':('simple WRITE commits with CommitWait(false), releases the lock and flushes afterwards','a concurrent READ sees data that a crash in the window does not preserve'),
'C18-r7-1':('a one-pair MultiPut writes the block straight to the disk instead of through the journal','an earlier journaled put of the same key not yet installed: the old value comes back'),
'C18-r7-2':('MultiPut refuses keys > sz instead of >= sz','a batch that names key sz: committed, block sz outside the store overwritten, Get(sz) panics'),
'C19-r7-1':('SETATTR records FBIG in err and falls through: a time update in the same request overwrites it with OK','a SETATTR with a size above maxfilesize and a time: answered OK, the time change takes effect'),
'C19-r7-2':('Inode.Write checks the size limit block by block inside its loop','a WRITE that starts below maxfilesize and ends beyond it: cut off and acknowledged instead of refused'),
}
M=json.load(open('/verif/seeded/MATRIX.json'))['seeds']
for sid,(what,needs) in sorted(DESC.items()):
    d=f'/verif/seeded/{sid}'
    if not os.path.exists(d+'/confirm.json'): print('missing',sid); continue
    c=json.load(open(d+'/confirm.json'))
    prop=sid.split('-')[0]
    rules=M.get(sid,{}).get('rules',[])
    meta={'seed':sid,'property_broken':prop,'property_title':props[prop].get('title') or props[prop].get('name'),
      'change':what,'needs_to_manifest':needs,
      'source':'independent sub-agent (round 7) given only the property text, a list of changes already tried and a scratch worktree; change and demonstration re-confirmed by tools/confirm_seed.sh',
      'confirmed_against_commit':c['base_commit'],
      'what_was_run':{'build':f"go build ./... (exit {c['build_with_change_exit']})",'demonstration':c['demo_run'],
        'demo_exit_without_change':c['demo_without_change_exit'],'demo_exit_with_change':c['demo_with_change_exit'],
        'existing_suite_with_change':f"go test -vet=off -count=1 ./... (exit {c['existing_suite_with_change_exit']})"},
      'confirmed':c['confirmed'],'caught_by_rules':rules}
    json.dump(meta,open(d+'/meta.json','w'),indent=1)
    own=[r for r in rules if r.startswith(prop+'.')]
    if c['confirmed'] and own:
        p=open(d+'/patch.diff').read()
        open(f'/verif/variants/{prop}__seed_{sid}.patch','w').write(f'# seeded change {sid} (breaks {prop}; see /verif/seeded/{sid}/meta.json)\n# expect-rule: {own[0]}\n'+p)
    else:
        print('NOT CAUGHT BY OWN PROPERTY or unconfirmed:',sid,rules)
print('done')
