#!/usr/bin/env python3
"""Regenerates /verif/MANIFEST.json from the table below (kept in one place so
the manifest stays valid and consistent with DESIGN.md)."""
import json, sys

ENV = "GOFLAGS=-mod=mod GOPROXY=off GOSUMDB=off GOTOOLCHAIN=local GOWORK=off"
SETUP = ("cd /verif/checker && %s go build -o /verif/bin/nfsverif . && /verif/bin/nfsverif -selftest-controls" % ENV)

NOTE = ("Trusted: Go type checker, golang.org/x/tools v0.29.0 (go/packages, go/ssa, VTA call graph); "
        "go-journal, go-rpcgen xdr/rfc1057, tchajed/marshal and the goose disk are analysed as callees but assumed correct. "
        "Static only: nothing of go-nfsd is executed.")

# id -> (claimed, category, text, technique, design_ref)  |  (False, reason)
P = {}

def claim(id, cat, text, tech, ref):
    P[id] = (True, cat, text, tech, ref)

def na(id, reason):
    P[id] = (False, reason)

claim("C01", "other",
      "Decides structural necessary conditions of crash atomicity/durability on every path of the current source: success replies only after a synchronous commit whose result steers the status (R1), a single commit funnel that writes bitmap bits before the durability point (R2), complete allocation bookkeeping with the right polarity (R3), no raw disk access behind the journal after recovery (R4), format order (R5), self-contained shrink transactions (R6), no operation through a finished transaction, the WRITE stability dispatch and COMMIT flush (R8, R9 = C07.U2/U1), disk decorators delegating every operation incl. Barrier (R10). It does not decide that the recovered state equals a prefix of the history - that needs the disk trace and the journal's own correctness. Later clauses: a shrink transaction is kept within the log counting the bitmap blocks of the commit (R13), no short write and no failed directory update is taken for done (R14, R16), a block number that can be 0 never becomes a block address (R11, R17), a refused commit is reported (R18). Round 9: one committed transaction per request (R19), sub-block journal objects are never logged through their containing block (R20).",
      "must-pass-through / who-may-call / typestate over go/ssa + VTA call graph", "DESIGN.md section 3 C01")
claim("C03", "other",
      "Decides the strict two-phase-locking discipline: cached inodes are used only inside their lock's critical section (T1), locks are released only after the commit point and only at frozen early-release sites (T2), abort-and-relock sites revalidate generation and name (T3), the inode-cache slot is looked up only under the inode lock (T4), an aborting transaction drops the cached inodes it modified before it unlocks (T5), NOENT only where a lookup found nothing (T6), a re-locked inode is read from the committed state, not from the transaction's own buffers (T7). Does not decide the existence of a linearization for a history. Also: one committed transaction per request (T10), existence checked under the lock in force and deciding the allocation (T12), RENAME relocks by directory identity with a completely filled list (T13). Round 9: revalidation after a relock whatever the cached objects look like (T14 = G4), one lock per file in SimpleNFS (T15), journal objects written at the granularity of their lock (T16).",
      "transaction typestate (ESP-style) + must-precede over go/ssa", "DESIGN.md section 3 C03")
claim("C04", "other",
      "Decides co-update disciplines that keep the on-disk structure well-formed: pointer/bitmap/inode co-update through the commit funnel (S1), name and link co-update (S2), link-count balance across inverse operations (S3), emptiness check before directory unlink (S4), range assertion on pointer-producing paths (S5), only regular files have client-settable content/size (S7), cache slots only under the lock (S8). Not the invariant on any concrete state. Also: ok results of directory updates used (S15), null block numbers never addressed (S16), a create goes ahead only when the lookup found nothing (S17), RENAME of a name onto itself changes nothing (S18). Round 9: a directory update reported done was written (S19).",
      "pairing / who-writes / guard dominance over go/ssa", "DESIGN.md section 3 C04")
claim("C05", "other",
      "Decides structural conditions of full reclamation: truncate-before-free and shrinker start (F1), allocator epilogues exactly at commit/abort (F2), no double return (F3), no resize of a half-freed inode (F4), link-count balance (F5), shrinker accounting (F6), index blocks released with their first slot and Shrink results handed on (F8, F1), refused commits undone (F9), no index block linked without a data block (F10), no stale inode copy after an early release (F12). Not the arithmetic of Shrink/indshrink. Also: every shrink request starts a shrinker that shrinks its inode (F6), shrink transactions fit in the log (F18), bmap reports what it linked (F19), READ does not map blocks behind the end of the file (F20).",
      "must-precede / must-use-result / who-may-call over go/ssa", "DESIGN.md section 3 C05")
claim("C06", "other",
      "Lock-order analysis of every inode-lock acquisition site reachable from any entry point: each nested acquisition must match an ordering idiom (guarded ascending, sorted loop, allocator-fresh, owned); every transaction ends exactly once on every path; no foreign transaction under locks; mutex pairing; nothing held across retry iterations; every terminator releases all locks on every path (L5). Termination of retry loops is not decided.",
      "lock-order + transaction typestate over go/ssa", "DESIGN.md section 3 C06")
claim("C07", "other",
      "Decides the stability dispatch of WRITE (reported level is the dispatched level, asynchronous commit only on the UNSTABLE arm), flush-before-success in COMMIT on every success end state, presence and provenance of a per-instance write verifier, the upgrade when unstable writes are disabled, that an unstable write is acknowledged only when the journal accepted its commit, and that the three stability levels have their RFC 1813 wire values. Durability itself is the journal's. Also: transactions sized by a request (WRITE, SYMLINK, READ) and by a truncation stay within the log, so that no refused commit makes COMMIT flush nothing (U5, U9); every byte of the verifier is a window of its source and all bytes are written (U10).",
      "SSA value identity + must-pass-through", "DESIGN.md section 3 C07")
claim("C08", "other",
      "Decides handle-codec symmetry, generation bump at every birth/death on every path with fixed writers of Kind/Gen, the checking accessor's guards, and that every handle argument of every procedure is checked before a success reply, under the transaction that replies (a validation is void after that transaction aborts). Uniqueness over a history is not decided.",
      "codec symmetry + who-writes + guard dominance over go/ssa", "DESIGN.md section 3 C08")
claim("C09", "other",
      "Decides that error replies abort and never commit (A1), that abort discards in-place cache mutations (A2), that rejected/unsupported requests are effect-free (A4) and that commit results are not dropped (A5), cache slots only under the lock (A7), a commit the journal refuses is undone like an abort (A8). Equality of the whole state before/after is not decided. Also: request-sized transactions are bounded before they reach the journal (A14) and a refused commit is reported to the handler (A8).",
      "transaction typestate + reachability over go/ssa", "DESIGN.md section 3 C09")
claim("C10", "other",
      "Decides write-through of every cached inode mutation before commit (W1), name cache mirrors directory writes (W2), on-disk codecs are inverse and fit their slots (W3), caches dropped on abort (W4), cache slots only under the lock (W6), locks released only after the durability point (W7), no commit of an aborted transaction (W8), refused commits undone (W9). The comparison of two servers' observable state is not decided. Also: bmap's 'allocated' answer is true exactly where it linked a pointer (W11).",
      "dirty/clean typestate + codec symmetry over go/ssa", "DESIGN.md section 3 C10")
claim("C11", "other",
      "Decides that each client-controlled quantity is validated before it reaches a trapping operation for the listed sinks (decode length, inode number range, offset overflow, count vs data, client-sized allocation), the nil-transaction and unchecked-nil-slice crash causes, name checks on both names, directory cookies, sizes settable on regular files only (V12), link counts kept positive (V13), terminators release their locks (V14), no use of a possibly-nil inode (V15), no allocation sized by the client (V16), directory code on directories only (V17), and an inventory of reachable explicit panics. Not a proof of panic freedom. Also: replies can always be encoded (V22), inodes with names are not freed (V23), the name predicate is folded on its three cases (V7).",
      "taint + guard dominance over go/ssa", "DESIGN.md section 3 C11")
claim("C12", "other",
      "Decides zero-on-free on every path with a full-block zero loop (Z1), pointer drops paired with frees and fixed writers of pointer slots (Z2), tail clearing on every unaligned shrink (Z3), client buffers not retained by the journal (Z4), aborted mutations dropped from the cache (Z6), a pending shrink never forgotten (Z7). Contents for a particular history are not decided. Also: the arithmetic of the tail clearing (start, block, bound, dirty mark) (Z3), a truncation covers every block of the old size (Z14), READ ends its transaction and stops at the end of the file (Z13, Z16), null block numbers never addressed (Z15).",
      "must-precede / pairing / alias flow over go/ssa", "DESIGN.md section 3 C12")
claim("C13", "other",
      "Decides that directory cookies cannot equal the start sentinel (P1), that every page makes progress (P2), that attributes/handles are those of the named entry (P3) and that end-of-directory is reported only through the scan loop's own bound test (P4), handed-out cookies are accepted back (P5). Completeness under concurrent updates is not decided. Also: the scan loop runs while offset < size and a page limit can answer 'more' (P4), only live entries are listed (P12), the head/last list protocol of the listers and its nil guard (P11).",
      "SSA lower-bound lattice + value identity", "DESIGN.md section 3 C13")
claim("C14", "other",
      "Static lock-discipline check for the shared state of the server packages: cached inodes only under their lock (D1), mutex-guarded fields only under their mutex (D2), statistics only through sync/atomic (D3), nothing lock-protected escapes into a goroutine (D4), configuration written before serving (D5), shared-state inventory with one discipline per struct type (D6), cache slots reached only under the inode lock (D7). Not a whole-program race analysis; dependencies trusted.",
      "lockset / guarded-by / who-writes over go/ssa", "DESIGN.md section 3 C14")
claim("C15", "other",
      "Decides the parts of the layout that hold by construction for every disk size: cumulative region chain (K1), constant agreement (K2), format and assertion use the same range with the same strictness (K3), bitmap covers the disk by the x/k+1 form (K4), and the two bit-marking loops of mkfs mark exactly [0,n) and [m mod NBITBLOCK, NBITBLOCK) of the right blocks (K6, decided by the form of the loops; a marking of another form is reported as undecided). That the whole data region can be filled is not decided. Also: bitmap blocks are read and put together in order (K5), link counts have fixed writers (K8). Round 9: an allocation is refused only when the allocator refuses (K9).",
      "constant evaluation + sibling agreement over AST/SSA", "DESIGN.md section 3 C15")
claim("C16", "translation_validation",
      "Validates the generated XDR codec and dispatch tables present in /repo against the RFC 1813 description (prot.x shipped in the pinned go-rpcgen module): wire grammar of every Xdr method extracted in encode and decode mode and compared node by node with the RFC's; constants by value; one registration per RFC procedure with matching numbers, argument/result types and handler; args.Error() checked before every handler and returned when set. The xdr primitives are trusted.",
      "XDR grammar extraction (AST abstract interpretation) vs parsed prot.x", "DESIGN.md section 3 C16")
claim("C17", "other",
      "Decides the validate/lock/one-transaction/commit(true)/unlock skeleton of each SimpleNFS handler, the bounds in its data path, layout constants and advertised limits, sizes grow only through the data path and the per-start initialisation keeps what the inodes hold (S4). The functional specification is not decided. Also: the size limits of SETATTR, WRITE and FSINFO agree (S7), no reply says OK by default and a refusal decided is a refusal returned (S8).",
      "pairing / must-precede / guard dominance over go/ssa", "DESIGN.md section 3 C17")
claim("C18", "other",
      "Decides that MultiPut is one journal operation committed once with wait=true whose result is returned, that every pair is written on every iteration and nothing is read to decide what to write, that Get reads through the journal and returns a copy, and that the key-range predicates of MultiPut and Get accept the same set. The range predicates refuse: the journal access lies on the accepting side of both comparisons. Round 9: Get is a reader - nothing reachable from it dirties or overwrites a journal object (Q3).",
      "must-precede + sibling bounds agreement over go/ssa", "DESIGN.md section 3 C18")
claim("C19", "other",
      "Decides that each advertised limit equals the largest value its enforcement predicate accepts (name length, transfer size) and that every store to the file size is dominated by a comparison with the advertised maximum. Behaviour at the limit end to end is not decided. Also: request-sized transactions (WRITE, SYMLINK, READ) are bounded by a constant <= wtmax (M6), the refusing side of a length test answers false (M1), and what the server announces gets past the decoder: no codec bound tighter than RFC 1813 (M10). Round 9: allocation refused only by the allocator (M11), the directory-entry codec returns what it read for names of every admitted length (M12).",
      "constant evaluation + normalised comparison agreement + guard dominance", "DESIGN.md section 3 C19")
claim("C02", "other",
      "Does NOT decide that replies equal those of a reference file system (a statement about run-time values). Decides structural necessary conditions of it on every path of the current source: (B1) the block-by-block copy loops of Inode.Read and Inode.Write move their cursors together - block index, file position, bytes left / done and source position advance by one per-round count that is min(bytes to the end of the block, bytes left), the loop goes on while bytes are left, the block touched is the one bmap returned for the round and is indexed at position%BlockSize + i, the read result is the in-order append of the rounds; (B2) reply fields come from their source (READ data/count/eof and READLINK target from Inode.Read, WRITE count from Inode.Write; handle and attributes of one reply from one inode object); (B3) the size a write records is start + bytes written, stored only where larger and whenever bytes were copied, Resize records the size asked for; RMDIR removes only directories (B17), reply attributes are taken after the last change (B18), the block map answers from the pointers (B19), an attribute is set from its own selector (B20), RENAME replaces only the same kind (B22); and the clauses shared with C04/C08/C09/C12/C13/C19 that state when a request must fail and what a name resolves to (unsupported procedures, EXIST, NOTEMPTY, self-rename, complete name cache, NOENT only from a lookup, READ clamp, stale handles, name and size limits, unlink after name removal, the listing built is the listing returned). Not decided: which bytes a history leaves in a file, error codes among several applicable refusals, eof, timestamps.",
      "loop-cursor (induction variable) agreement + value provenance + guard dominance over go/ssa", "DESIGN.md section 3 C02")

def main():
    built = set(sys.argv[1:])  # ids whose checks are built and pass on the pinned tree
    checks, nas = [], []
    for id in sorted(P):
        e = P[id]
        if not e[0]:
            nas.append({"property_id": id, "reason": e[1]})
            continue
        if id not in built:
            nas.append({"property_id": id, "reason": "not built yet in this commit (designed in DESIGN.md section 3; will be claimed once its rules are implemented and triaged)"})
            continue
        _, cat, text, tech, ref = e
        checks.append({
            "property_id": id,
            "quick_cmd": "/verif/bin/nfsverif -prop %s -tier quick" % id,
            "thorough_cmd": "/verif/bin/nfsverif -prop %s -tier thorough" % id,
            "evidence_file": "/verif/evidence/%s.json" % id,
            "replay_cmd_template": "/verif/bin/nfsverif -prop %s -explain {path}" % id,
            "engine": "nfsverif",
            "level_claimed": {"category": cat, "text": text, "design_ref": ref},
            "level_note": NOTE,
            "technique": "static analysis: " + tech,
        })
    m = {
        "version": 1,
        "setup_cmd": SETUP,
        "hooks": {
            "guard": "verif",
            "enable": "none needed: nothing is observed at run time; the checker loads /repo's working tree with go/packages",
            "baseline_off_cmd": "cd /repo && GOFLAGS=-mod=mod GOPROXY=off GOSUMDB=off go test -vet=off -count=1 -timeout 25m ./...",
            "source_commits": [],
            "add_only": True,
        },
        "engines": [{
            "name": "nfsverif",
            "path": "/verif/checker",
            "serves_properties": [c["property_id"] for c in checks],
            "kind_free_text": "repository-specific static analyser (go/packages + go/ssa + VTA call graph + AST grammar extraction); rule tables per property",
        }],
        "checks": checks,
        "not_applicable": nas,
        "notes": "Technique family: static analysis only. Every check re-loads /repo's current working tree; known genuine defects are listed in /verif/known_findings.json (keyed by rule+construct); see DESIGN.md.",
    }
    json.dump(m, open("/verif/MANIFEST.json", "w"), indent=1)
    print("claimed:", [c["property_id"] for c in checks])

main()
