#!/usr/bin/env python3
"""Writes meta.json for the round-8 seeded changes (seeded/<Cxx>-r7-<k>/) from confirm.json, the matrix
(seeded/MATRIX.json, run tools/seed_matrix.py first) and the one-line descriptions below, and the
corresponding self-test variant variants/<Cxx>__seed_<id>.patch (expect-rule = a rule of the seed's own property)."""
import json, os, glob
props={json.loads(l)['id']:json.loads(l) for l in open('/verif/properties.jsonl')}
DESC={
'C01-r8-2':('RENAME no longer checks the result of its final dir.AddName','a cross-directory RENAME into a directory whose last block is full while the disk is full, or a target name longer than 112 bytes: the old name is gone, the new one does not exist, the reply is OK'),
'C03-r8-1':("RENAME keeps its directory locks and locks the two children directly when both children 'come after their directory'",'a cross-directory RENAME of a directory a with d1 < a < d2, concurrent with a RENAME whose directories are a and d2: each holds what the other wants'),
'C03-r8-2':('dir.Apply takes a cached child without locking it (new helper FsTxn.CachedInode)','a READDIRPLUS while a SETATTR sits between two in-place updates of a cached child: the listing shows the new size with the old mtime'),
'C04-r8-1':('mkDcache rebuilds the name cache with a reply budget of 1,000,000 instead of 100,000,000','a directory of more than about 7,300 entries whose name cache is rebuilt (restart, eviction, abort): names behind the cut can be created a second time'),
'C04-r8-2':("doRemove tests 'is a directory' and IsDirEmpty only under isdir (RMDIR)",'REMOVE (not RMDIR) of a non-empty directory: it succeeds, the children stay live and unreachable'),
'C05-r8-1':("doDecLink returns the 'needs a shrinker' flag instead of starting the shrinker; RENAME's 'target exists' arm drops it",'RENAME over a file too large to be freed inside the RENAME: nobody ever frees its blocks'),
'C05-r8-2':('StartShrinker drops a request when four shrinkers are already running','a fifth large object removed or truncated while four background frees are in progress'),
'C06-r8-1':('lookupOrdered returns nil without aborting when the name no longer refers to the locked inode','a LOOKUP/REMOVE of a child numbered below its directory, with a RENAME of that name between the abort and the relock: the request waits for its own abandoned transaction'),
'C06-r8-2':("validateRename compares the target directory's generation with the source handle (dipto.Gen != fromfh.Gen)",'a cross-directory RENAME onto an existing name where the two directories carry different generations: validation fails for ever, RENAME retries for ever'),
'C07-r8-1':('SYMLINK bounds its target by jrnl.LogBytes instead of wtmax','an UNSTABLE write, a SYMLINK with a target of 507..511 blocks (refused by the journal), COMMIT, crash: the COMMIT flushed nothing'),
'C07-r8-2':('mkWriteVerf: byte(now >> (8 * i)) becomes byte(now >> 8 * i)',"two server instances share a verifier with probability 1/256: a client's COMMIT after a restart matches although the data is gone"),
'C08-r8-1':('InitInode only sets Gen = 1 when it is 0; FreeInode bumps Gen after WriteInode (the bump never reaches the disk)',"a removed file's inode read back cold (restart, eviction) before its number is reused: the new file has the old handle"),
'C08-r8-2':('RENAME over an existing directory no longer calls doDecLink for it (folded into the else of the emptiness test)',"RENAME of a directory onto an empty directory: the replaced directory's handle stays valid for ever"),
'C09-r8-2':('SYMLINK bounds its target by jrnl.LogBytes instead of wtmax (found independently of C07-r8-1)',"a refused SYMLINK of 507..511 blocks leaves the journal's flush position at 0: a later COMMIT acknowledges unflushed data"),
'C10-r8-1':('inode.DecLink drops its WriteInode','MKDIR d; MKDIR d/s; RENAME d/s -> /s2; RMDIR d: a live directory has Nlink 1 in the cache and 2 on disk'),
'C10-r8-2':('dropInodes skips inodes whose Kind is NF3FREE','a CREATE that fails after its inode was allocated (name too long): the cached free inode keeps Gen+2, the restarted server has the old generation'),
'C11-r8-1':('READ3resok.Xdr bounds the reply data at 16*4096 bytes','a READ with count above 65536 of a large enough file: the reply cannot be encoded, is dropped, the client waits for ever'),
'C11-r8-2':('doDecLink frees a directory whatever its link count (|| ip.Kind == NF3DIR)',"MKDIR /p; MKDIR /p/c; RENAME /p/c -> /c; RMDIR /p; READDIRPLUS /c: nil pointer dereference; LOOKUP /c '..' never answers"),
'C12-r8-1':('ShrinkSize is raised by Inode.Write when bmap says it allocated, and Resize no longer raises it to the old size','a file grown by several WRITEs in the indirect range, shrunk, grown again: the old bytes are back'),
'C12-r8-2':('GETATTR and READ end with a new FsTxn.CommitReadOnly that only releases the locks',"a READ of a hole (it links a block), a later write of that inode, a restart, another file allocating: the hole shows the other file's bytes"),
'C13-r8-1':("dir.Apply reads a lower-numbered entry's attributes from the inode cache without locking it","READDIRPLUS of a sub-directory while a CREATE in the parent is mid-commit: '..' shows uncommitted attributes"),
'C13-r8-2':('READDIR cookies become slot numbers while READDIRPLUS cookies stay byte offsets','an enumeration that mixes READDIR and READDIRPLUS (as the Linux client does): BAD_COOKIE, skipped or duplicated entries'),
'C14-r8-1':('getInodesLocked builds the parent handle from dip.Inum/dip.Gen after op.Abort() released the lock',"LOOKUP of '..' racing an RMDIR of that directory: unlocked read of Gen while FreeInode writes it"),
'C14-r8-2':('ShrinkerSt.Shutdown returns early when nthread == 0, read without the mutex','a background shrinker that has just finished, then shutdown: unsynchronised read of nthread'),
'C15-r8-1':('markAlloc marks the blocks below the data region with bn <= n','every accepted disk size loses its first data block for good (seen only by an exact bitmap audit or a complete fill)'),
'C15-r8-2':("InitDir adds a link for '.' (dip.Nlink + 1)","MKDIR then RMDIR: the directory's inode and block are never freed; a disk filled with directories cannot be filled again"),
'C16-r8-1':('LINK3resfail.Xdr loses its file_attributes member','a failing LINK (every LINK on go-nfsd): the reply is 12 bytes where RFC 1813 has 16'),
'C16-r8-2':('the MOUNT UMNTALL registration carries Prog: NFS_PROGRAM, Vers: NFS_V3','a MOUNT UMNTALL call gets PROC_UNAVAIL; with the tables registered in the other order ACCESS is served by UMNTALL'),
'C17-r8-1':('simple Inode.Write refuses only count > len(data)','a simple WRITE with count smaller than the data supplied is accepted and committed'),
'C17-r8-2':('simple SETATTR refuses newsize >= BlockSize','SETATTR to exactly 4096 bytes answers NOSPC although WRITE reaches 4096 and FSINFO announces it'),
'C18-r8-1':('kvs.Get returns its value in one buffer owned by the KVS instead of a copy','a Get result kept across another Get, or two concurrent Gets: the value of another key'),
'C18-r8-2':('MultiPut skips pairs whose value is all zeros','a put of zeros over a non-zero value is acknowledged and never logged'),
'C19-r8-1':('Inode.Write refuses offset+count >= MaxFileSize()','a WRITE that ends exactly at the announced maximum file size is refused with NOSPC'),
'C19-r8-2':('WRITE3args.Xdr bounds the data at 1 MiB','a WRITE between 1 MiB and the announced wtmax is rejected as garbage by the decoder'),
}
M=json.load(open('/verif/seeded/MATRIX.json'))['seeds']
for sid,(what,needs) in sorted(DESC.items()):
    d=f'/verif/seeded/{sid}'
    if not os.path.exists(d+'/confirm.json'): print('missing',sid); continue
    c=json.load(open(d+'/confirm.json'))
    prop=sid.split('-')[0]
    rules=M.get(sid,{}).get('rules',[])
    meta={'seed':sid,'property_broken':prop,'property_title':props[prop].get('title') or props[prop].get('name'),
      'change':what,'needs_to_manifest':needs,
      'source':'independent sub-agent (round 8) given only the property text, a list of changes already tried and a scratch worktree; change and demonstration re-confirmed by tools/confirm_seed.sh',
      'confirmed_against_commit':c['base_commit'],
      'what_was_run':{'build':f"go build ./... (exit {c['build_with_change_exit']})",'demonstration':c['demo_run'],
        'demo_exit_without_change':c['demo_without_change_exit'],'demo_exit_with_change':c['demo_with_change_exit'],
        'existing_suite_with_change':f"go test -vet=off -count=1 ./... (exit {c['existing_suite_with_change_exit']})"},
      'confirmed':c['confirmed'],'caught_by_rules':rules}
    json.dump(meta,open(d+'/meta.json','w'),indent=1)
    own=[r for r in rules if r.startswith(prop+'.')]
    if c['confirmed'] and own:
        p=open(d+'/patch.diff').read()
        open(f'/verif/variants/{prop}__seed_{sid}.patch','w').write(f'# seeded change {sid} (breaks {prop}; see /verif/seeded/{sid}/meta.json)\n# expect-rule: {own[0]}\n'+p)
    else:
        print('NOT CAUGHT BY OWN PROPERTY or unconfirmed:',sid,rules)
print('done')
