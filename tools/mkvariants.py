#!/usr/bin/env python3
"""Regenerates the 'defect returns' variants: the reverse of each fix: commit of /repo, as a patch
against /repo's HEAD, one file per (property, defect) with the rule that must fire.  Run after
changing the fix commits; the generated files are committed under /verif/variants."""
import subprocess, os, sys
REV = {
 # subject prefix of the fix commit : (defect, [(prop, rule), ...])
 'fix: REMOVE/RMDIR of "." or ".." crashed': ('D11', [('C11','C11.V6'),('C06','C06.L2')]),
 'fix: RENAME onto "." or ".." deadlocked': ('D22', [('C11','C11.V7')]),
 'fix: RENAME panicked when its target was removed': ('D21', [('C11','C11.V6')]),
 'fix: RENAME read directory inode numbers after': ('D4', [('C14','C14.D1'),('C03','C03.T1')]),
 'fix: WRITE reply attributes were read after': ('D3', [('C03','C03.T1'),('C14','C14.D1')]),
 'fix: RENAME between two directories accepted stale': ('D13', [('C08','C08.G4')]),
 'fix: REMOVE of a non-empty directory succeeded': ('D6', [('C04','C04.S4')]),
 'fix: a directory that ever had a sub-directory': ('D5a', [('C04','C04.S3'),('C05','C05.F5')]),
 'fix: WRITE with count larger than the data': ('D19', [('C11','C11.V4')]),
 'fix: COMMIT range check could wrap': ('D18b', [('C11','C11.V3')]),
 'fix: SETATTR accepted sizes beyond': ('D29', [('C19','C19.M3')]),
 'fix: WRITE and COMMIT always returned an all-zero': ('D12', [('C07','C07.U3')]),
 'fix: READDIR with a small count returned': ('D25', [('C13','C13.P1')]),
 'fix: READ of a hole in the indirect range': ('D31', [('C10','C10.W1'),('C05','C05.F7'),('C01','C01.R7')]),
 'fix: ACCESS, FSINFO and PATHCONF answered': ('D14', [('C08','C08.G4')]),
 'fix: lockInodes sorted the copy with a comparator': ('D8', [('C06','C06.L1')]),
 'fix: lockInodes deadlocked on its own lock': ('D9', [('C06','C06.L1')]),
 'fix: a file handle shorter than 16': ('D16', [('C11','C11.V1'),('C17','C17.V1')]),
 'fix: a file handle naming an inode beyond': ('D17', [('C11','C11.V2')]),
 'fix: WRITE with offset+count wrapping': ('D18a', [('C11','C11.V3')]),
 'fix: full-block WRITE left the caller': ('D24', [('C12','C12.Z4')]),
 'fix: shrinking a file to an unaligned size': ('D23', [('C12','C12.Z3')]),
 'fix: names of exactly MAXNAMELEN': ('D27', [('C19','C19.M1')]),
 'fix: kvs.Get accepted key == sz': ('D26', [('C18','C18.Q2')]),
 'fix: simple SETATTR with a huge size': ('D20', [('C17','C17.V5'),('C11','C11.V5')]),
 'fix: after a crash the allocators ignored': ('D1', [('C01','C01.R4')]),
 'fix: a crash during mkfs left a disk': ('D2', [('C01','C01.R5')]),
 'fix: READDIR/READDIRPLUS with a cookie that is not': ('D33', [('C11','C11.V9')]),
 'fix: SYMLINK bounds the length of its target': ('D39', [('C07','C07.U5'),('C19','C19.M6')]),
 'fix: GetInodeLocked reads a cold inode from the committed state': ('D38', [('C03','C03.T7'),('C05','C05.F12')]),
 'fix: the advertised wtmax was refused': ('D28', [('C19','C19.M2')]),
 'fix: an index block allocated for a write that then ran out': ('D37', [('C05','C05.F10')]),
 'fix: a commit the journal refused left its changes': ('D36', [('C09','C09.A8'),('C10','C10.W9'),('C05','C05.F9')]),
 'fix: Resize forgot a background shrink that was still pending': ('D7', [('C05','C05.F4'),('C12','C12.Z7')]),
 'fix: SETATTR of the size was accepted for directories': ('D35', [('C11','C11.V12'),('C04','C04.S7')]),
 'fix: Resize hands on the result of the in-transaction Shrink': ('D34', [('C05','C05.F1')]),
 'fix: formatting a disk without a data block': ('D43', [('C04','C04.S15'),('C01','C01.R16')]),
 'fix: READ bounds its count like WRITE': ('D42', [('C07','C07.U5'),('C19','C19.M6'),('C09','C09.A14')]),
 'fix: Shrink counts the bitmap blocks of the commit': ('D41', [('C01','C01.R13'),('C07','C07.U9'),('C05','C05.F18')]),
 'fix: a WRITE aborted for lack of space': ('D32', [('C09','C09.A2'),('C10','C10.W4')]),
}
def sh(*a, **k): return subprocess.run(a, capture_output=True, text=True, **k)
wt='/tmp/mkvariants_wt'
sh('git','-C','/repo','worktree','remove','--force',wt)
assert sh('git','-C','/repo','worktree','add','--detach',wt,'HEAD').returncode==0
# reverts that no longer compile or apply as plain `git revert` (a later fix builds on the repaired code): D15, D28, D2 (over D43) and D32 (over D41) are kept as hand-made
# patches of the same names, D1 and D12 have no variant; none is regenerated
HAND={'D1','D12','D15','D28','D2','D32'}
try:
    log=sh('git','-C',wt,'log','--format=%h %s').stdout.strip().split('\n')
    n=0
    for line in log:
        h,subj=line.split(' ',1)
        for pre,(d,targets) in REV.items():
            if subj.startswith(pre):
                if d in HAND: continue
                r=sh('git','-C',wt,'revert','--no-commit',h)
                if r.returncode!=0:
                    print('revert conflicts, skipped:',d,h); sh('git','-C',wt,'revert','--abort'); sh('git','-C',wt,'reset','--hard','-q'); continue
                diff=sh('git','-C',wt,'diff','HEAD').stdout
                sh('git','-C',wt,'reset','--hard','-q')
                for prop,rule in targets:
                    fn=f'/verif/variants/{prop}__fixrevert_{d}.patch'
                    open(fn,'w').write(f'# variant: the defect {d} returns (reverse of fix commit "{subj}")\n# expect-rule: {rule}\n'+diff)
                    n+=1
    # D15: hand-made (variants/C09__fixrevert_D15.patch, C10__fixrevert_D15.patch): the plain revert no longer compiles
    sh('git','-C',wt,'reset','--hard','-q')
    print('wrote',n,'variant files')
finally:
    sh('git','-C','/repo','worktree','remove','--force',wt)
