#!/usr/bin/env python3
"""Round-9 seeding prompts: one per claimed property, written to /tmp/mut9/PROMPT_<Cxx>.txt, from the round-8
example prompt (the list of changes already tried) plus the descriptions of the round-8 seeds."""
import json, re, glob, os, subprocess
props={json.loads(l)['id']:json.loads(l) for l in open('/verif/properties.jsonl')}
ex=open('/verif/seeded/PROMPT_round8_example.txt').read().split('\n')
i0=next(i for i,l in enumerate(ex) if l.startswith('The following changes have ALREADY'))
i1=next(i for i,l in enumerate(ex) if l.startswith('For each mutation also write a DEMONSTRATION'))
tried=[l for l in ex[i0+1:i1] if l.startswith('- ')]
for m in sorted(glob.glob('/verif/seeded/C*-r8-*/meta.json')):
    tried.append('- '+json.load(open(m))['change'])
tried.append('- Shrink not counting the bitmap blocks of the commit; READ passing an unbounded count to Inode.Read; makeRootDir ignoring MkRootDir\'s result (these were real defects and are fixed now)')
tail='\n'.join(ex[i1:])
for pid,p in sorted(props.items()):
    if pid=='C02': continue
    d=f'/tmp/mut9/{pid}'
    head=f"""You are helping test a verification effort for the Go project mit-pdos/go-nfsd (an NFSv3 server on a raw disk, each RPC a GoJournal transaction).

You have your own scratch git worktree of the repository at {d} (work ONLY inside that directory; never touch /repo or /verif and do not read anything under /verif).

PROPERTY ({pid}: {p.get('title') or p.get('name')}):
{p.get('statement') or p.get('description')}
Quantified over: {p['quantifier']['text']}

TASK: produce TWO different, independent source changes ("mutations") to go-nfsd (non-test .go files of the repository) such that each change
 (a) still compiles (`go build ./...`),
 (b) still passes the complete existing test suite unchanged (`go test -vet=off -count=1 ./...`, about 30 s),
 (c) BREAKS the property above - realistic bugs a developer could plausibly introduce (a dropped step, a condition narrowed or widened, a reordering, a wrong variable, an off-by-one, a missing check on one path, a copy-paste slip, a well-meant optimisation or simplification that is wrong in a corner, two cooperating edits in different functions that each look fine alone), and
 (d) needs something SPECIFIC to manifest: a particular interleaving, a crash or fault at a particular point, a multi-step sequence of operations, an unusual input, or two cooperating sites that each look fine alone. NOT something that ordinary use would expose at once. Keep each mutation small (a few lines) and make the two mutations differ in mechanism and in the code they touch.
The following changes have ALREADY been tried by others - do NOT repeat them or close variations of them; find different mechanisms and, where possible, different functions (read the less-travelled code too: the cache package, fstxn, super, alloctxn, shrinker, util, the dispatch code in nfstypes, cmd/):
"""
    body=head+'\n'.join(tried)+'\n\n'+tail.replace('/tmp/mut8/C03',d)
    open(f'/tmp/mut9/PROMPT_{pid}.txt','w').write(body)
    if not os.path.exists(d):
        subprocess.run(['git','-C','/repo','worktree','add','--detach',d,'HEAD'],check=True,capture_output=True)
print(len(tried),'changes listed')
