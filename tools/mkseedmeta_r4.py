#!/usr/bin/env python3
"""Writes meta.json for the round-4 seeded changes (seeded/<Cxx>-r4-<k>/) from confirm.json, the matrix
(seeded/MATRIX.json, run tools/seed_matrix.py first) and the one-line descriptions below, and the
corresponding self-test variant variants/<Cxx>__seed_<id>.patch (expect-rule = a rule of the seed's own property)."""
import json, os, glob
props={json.loads(l)['id']:json.loads(l) for l in open('/verif/properties.jsonl')}
DESC={
'C01-r4-1':('Inode.Write writes the data of a just-allocated direct block straight to the disk (Disk.Write) instead of through the journal','a crash between that write and the commit, then a partial write into the same (free again, no longer zero) block'),
'C01-r4-2':('FreeBlock tests for the null block after ZeroBlock: freeing a hole zeroes block 0, the header of the write-ahead log','a sparse file, its removal or truncation, and a crash before the next log append'),
'C03-r4-1':('FreeBlock returns the block to the in-memory allocator at once instead of at PostCommit','two clients on different files on a nearly full disk: a WRITE allocates a block that an uncommitted truncate has just freed'),
'C03-r4-2':('GetInodeLocked reads the inode before it waits for the inode lock (rebased by hand onto the D38 repair: Log.Load hoisted above LockInode)','a waiter queued behind a holder that changes the inode, with the cache slot recycled or dropped in between'),
'C04-r4-1':('indbmap reports the index block it has just freed as the new root when no data block is left (return NULLBNUM, root)','a short WRITE that gets an index block but no block behind it'),
'C04-r4-2':('WRITE refuses only symlinks (Kind == NF3LNK) instead of everything but regular files','a WRITE carrying a directory handle'),
'C05-r4-1':('PreCommit writes the freed bits before the allocated bits, one bitmap at a time','a transaction that allocates an index block and gives it back (short WRITE at the index boundary), then a restart'),
'C05-r4-2':('Resize clears the tail of the last block after WriteInode: a block allocated by the clearing in a hole is not recorded in the logged inode','a sparse file cut by SETATTR to an unaligned size inside a hole, then a restart'),
'C06-r4-1':('lockInodes acquires with GetInodeInumFree: it keeps the lock of a free inode while it waits for the next one','a RENAME with a stale directory handle naming a free inode, and a concurrent CREATE that is handed that number'),
'C06-r4-2':('getShrink yields and retries instead of finishing the pending shrink itself (DoShrink)','a crash in the middle of a large truncation (no shrinker thread after restart), then a WRITE or SETATTR on that file'),
'C07-r4-1':('COMMIT skips the log flush when an in-memory "unstable" mark on the cached inode is clear','an UNSTABLE write, the inode evicted from the cache (100 other inodes touched), COMMIT, crash'),
'C07-r4-2':('the write verifier is set only when MakeNfs formats a new file system','two restarts on the same disk: both later instances announce verifier 0'),
'C08-r4-1':('doCreate gives the parent a link for every non-regular object: SYMLINK bumps the parent directory\'s Nlink','a symlink created in a directory, later RMDIR of that directory, then use of its old handle'),
'C08-r4-2':('GetInodeFh calls a handle stale only when its generation is larger than the inode\'s (ip.Gen < fh.Gen)','an inode number reused after a restart (or an allocator wrap): the old handle opens the new object'),
'C09-r4-1':('PreCommit regrouped bitmap by bitmap: each bitmap\'s freed bits are written before its allocated bits','a cut-short WRITE that allocated and gave back an index block, then a restart'),
'C09-r4-2':('cross-directory RENAME answers STALE on a generation mismatch without errRet: the transaction is never aborted','a removed directory\'s handle whose inode number is live again with a newer generation'),
'C10-r4-1':('PreCommit writes the free bits before the allocated bits','a committing transaction that both allocates and frees the same block (indbmap gives back an index block), then a restart'),
'C10-r4-2':('inode.Decode stores the fourth time word in Atime.Nseconds instead of Mtime.Nseconds','an inode decoded from disk again (restart, eviction, abort) and a look at sub-second times'),
'C11-r4-1':('RENAME passes the two handles to validateRename in the wrong order (toh, fromh)','a RENAME between two different directories onto an existing name: the request retries for ever'),
'C11-r4-2':('doRemove refuses "." and ".." only for RMDIR','REMOVE(d, ".") on an empty directory: index out of range, the server dies'),
'C12-r4-1':('indbmap returns the block it has just freed as the new root on the out-of-space path','a short WRITE: the committed inode points to a block the allocator hands to the next file'),
'C12-r4-2':('Resize computes the old size in blocks by truncating division (ip.Size / BlockSize)','an unaligned size at the time of a shrink or delete: the last block is neither zeroed nor freed'),
'C13-r4-1':('READDIR on a non-directory sets NOTDIR and returns without ending its transaction','plain READDIR with a file handle, later READDIRPLUS (or a name-cache rebuild) of the parent'),
'C13-r4-2':('WRITE no longer checks that its handle names a regular file','a WRITE carrying a directory handle: forged and lost entries in later enumerations'),
'C14-r4-1':('only UNSTABLE writes get a private copy of the client\'s data; Inode.Write no longer clones a full block','a stable whole-block WRITE whose buffer is reused before the block is installed (race detector)'),
'C14-r4-2':('cache eviction prefers slots whose Obj is nil: evict reads slot contents under the cache mutex only','a full inode cache and a concurrent GetInodeLocked/dropInodes on another slot (race detector)'),
'C15-r4-1':('PreCommit writes the free bits before the allocated bits','a disk filled to exactly one free block, a WRITE crossing into a range that needs a new index block, restart'),
'C15-r4-2':('MkFsState builds the block allocator from bbitmap[:Size/8]','a disk size that is not a multiple of 8: the last Size%8 data blocks can never be allocated'),
'C16-r4-1':('Exports3.Xdr takes the "ex_next follows" flag from Ex_groups','an export list in which exactly one of ex_groups / ex_next is present'),
'C16-r4-2':('procedure 11 (MKNOD) is registered with the MKDIR wrapper','a MKNOD call through the RPC registration table (mkfifo creates a directory)'),
'C17-r4-1':('simple: inodes are read and written as the whole inode block (ReadBuf of block LOGSIZE, SetDirty) instead of the 128-byte object','two overlapping size-changing requests on different files: the later commit reverts the other file\'s inode'),
'C17-r4-2':('simple Inode.Read clamps the count against the size instead of the bytes left (count > ip.Size)','a READ that starts inside the file and straddles EOF'),
'C18-r4-1':('the lower key bound is taken from log.LogSz() (511) instead of LOGSIZE (513)','a put to key 511/512, about 509 logged blocks and a crash between the installer\'s home writes and its header update'),
'C18-r4-2':('Get reuses one long-lived read operation created in MkKVS','Get(k), a MultiPut containing k, Get(k) again on the same instance'),
'C19-r4-1':('dir.RemName refuses names of exactly MAXNAMELEN bytes (>= for >)','a name of the advertised maximum length that is created and then removed or renamed'),
'C19-r4-2':('WRITE charges the in-block start offset against wtmax (Offset%4096 + Count > wtmax)','a write within 4095 bytes of wtmax that starts off a block boundary'),
}
M=json.load(open('/verif/seeded/MATRIX.json'))['seeds']
for sid,(what,needs) in sorted(DESC.items()):
    d=f'/verif/seeded/{sid}'
    if not os.path.exists(d+'/confirm.json'): print('missing',sid); continue
    c=json.load(open(d+'/confirm.json'))
    prop=sid.split('-')[0]
    rules=M.get(sid,{}).get('rules',[])
    meta={'seed':sid,'property_broken':prop,'property_title':props[prop].get('title') or props[prop].get('name'),
      'change':what,'needs_to_manifest':needs,
      'source':'independent sub-agent (round 4) given only the property text, a list of changes already tried and a scratch worktree; change and demonstration re-confirmed by tools/confirm_seed.sh',
      'confirmed_against_commit':c['base_commit'],
      'what_was_run':{'build':f"go build ./... (exit {c['build_with_change_exit']})",'demonstration':c['demo_run'],
        'demo_exit_without_change':c['demo_without_change_exit'],'demo_exit_with_change':c['demo_with_change_exit'],
        'existing_suite_with_change':f"go test -vet=off -count=1 ./... (exit {c['existing_suite_with_change_exit']})"},
      'confirmed':c['confirmed'],'caught_by_rules':rules}
    json.dump(meta,open(d+'/meta.json','w'),indent=1)
    own=[r for r in rules if r.startswith(prop+'.')]
    if c['confirmed'] and own:
        p=open(d+'/patch.diff').read()
        open(f'/verif/variants/{prop}__seed_{sid}.patch','w').write(f'# seeded change {sid} (breaks {prop}; see /verif/seeded/{sid}/meta.json)\n# expect-rule: {own[0]}\n'+p)
    else:
        print('NOT CAUGHT BY OWN PROPERTY or unconfirmed:',sid,rules)
print('done')
