#!/usr/bin/env python3
"""Mutation campaign for testing the checker (not a check itself).
phase 1:  automut.py check <list.jsonl> <out.jsonl> [workers]   - run all checks on every mutant (scratch copies under /tmp, removed at the end)
phase 2:  automut.py test  <out.jsonl> <out2.jsonl> [workers]   - run the existing test suite on the mutants no check reported
A mutant is 'killed' when a check reports an obligation that does not fail on the unchanged tree."""
import json, os, subprocess, sys, shutil, tempfile, threading, queue
BIN=os.environ.get('NFSVERIF_BIN','/verif/bin/nfsverif')
SRC=os.environ.get('AUTOMUT_SRC','/repo')  # the tree the byte offsets of the mutant list refer to
env=dict(os.environ, GOFLAGS='-mod=mod', GOPROXY='off', GOSUMDB='off', GOTOOLCHAIN='local', NFSVERIF_NESTED='1')
env.pop('GOWORK',None)
def mkcopy():
    tmp=tempfile.mkdtemp(prefix='automut.')
    files=subprocess.run(['git','-C',SRC,'ls-files','-z'],capture_output=True).stdout.split(b'\0')
    for f in files:
        if not f: continue
        f=f.decode(); p=os.path.join(tmp,f); os.makedirs(os.path.dirname(p),exist_ok=True); shutil.copy(os.path.join(SRC,f),p)
    return tmp
def failing(repo):
    v=tempfile.mkdtemp(prefix='automutv.')
    shutil.copy('/verif/known_findings.json', v)
    out=subprocess.run([BIN,'-repo',repo,'-verif',v,'-prop','all'],capture_output=True,text=True,env=env).stdout
    shutil.rmtree(v)
    keys=set(); load=False
    for l in out.split('\n'):
        if l.startswith('FAILKEY '): keys.add(l[8:])
        if l.startswith('LOAD-FAILURE') or 'LOAD-FAILURE' in l[:40]: load=True
    return keys, load
def apply(tmp,m):
    p=os.path.join(tmp,m['file']); src=open(os.path.join(SRC,m['file']),'rb').read()
    open(p,'wb').write(src[:m['from']]+m['repl'].encode()+src[m['to']:])
def restore(tmp,m):
    shutil.copy(os.path.join(SRC,m['file']), os.path.join(tmp,m['file']))
def run(mode, inp, outp, workers):
    done=set()
    if os.path.exists(outp):
        for l in open(outp):
            try: done.add(json.loads(l)['id'])
            except Exception: pass
    ms=[json.loads(l) for l in open(inp)]
    if mode=='test': ms=[m for m in ms if m.get('verdict')=='missed']
    ms=[m for m in ms if m['id'] not in done]
    base,_=failing(SRC)
    q=queue.Queue()
    for m in ms: q.put(m)
    lock=threading.Lock(); out=open(outp,'a')
    def work():
        tmp=mkcopy()
        try:
            while True:
                try: m=q.get_nowait()
                except queue.Empty: break
                apply(tmp,m)
                try:
                    if mode=='check':
                        keys,load=failing(tmp)
                        new=sorted(keys-base)
                        m['verdict']='nobuild' if load else ('killed' if new else 'missed')
                        m['rules']=sorted({k.split('|')[0] for k in new})[:12]
                    else:
                        r=subprocess.run(['go','build','./...'],cwd=tmp,capture_output=True,text=True,env=env)
                        if r.returncode!=0: m['tests']='nobuild'
                        else:
                            try:
                                r=subprocess.run(['go','test','-vet=off','-count=1','-timeout','240s','./...'],cwd=tmp,capture_output=True,text=True,env=env,timeout=400)
                                m['tests']='pass' if r.returncode==0 else 'fail'
                            except subprocess.TimeoutExpired:
                                m['tests']='timeout'
                finally:
                    restore(tmp,m)
                with lock:
                    out.write(json.dumps(m)+'\n'); out.flush()
        finally:
            shutil.rmtree(tmp,ignore_errors=True)
    ts=[threading.Thread(target=work) for _ in range(workers)]
    for t in ts: t.start()
    for t in ts: t.join()
if __name__=='__main__':
    run(sys.argv[1], sys.argv[2], sys.argv[3], int(sys.argv[4]) if len(sys.argv)>4 else 6)
