#!/bin/bash
# usage: confirm_seed.sh <seed-id> <src-dir with patch.diff + demo> <pkg> <run-regex> [tags]
# Confirms, in a scratch worktree of /repo HEAD (removed afterwards), that the seeded change
#  (1) applies and builds, (2) the demonstration PASSES without it and FAILS with it,
#  (3) the existing test suite passes with it; then stores it under /verif/seeded/<id>/.
set -u
id=$1; src=$(readlink -f "$2"); pkg=$3; run=$4; tags=${5:-}; extra=${6:-}
export GOFLAGS=-mod=mod GOPROXY=off GOSUMDB=off GOTOOLCHAIN=local; unset GOWORK
wt=$(mktemp -d /tmp/seedwt.XXXXXX); rmdir "$wt"
git -C /repo worktree add --detach "$wt" HEAD >/dev/null 2>&1 || { echo "worktree failed"; exit 2; }
cleanup() { git -C /repo worktree remove --force "$wt" >/dev/null 2>&1; rm -rf "$wt"; }
trap cleanup EXIT
head=$(git -C /repo rev-parse --short HEAD)
demos=$(cd "$src" && ls *_test.go)
tagarg=""; [ -n "$tags" ] && tagarg="-tags $tags"
out=/verif/seeded/$id; mkdir -p "$out"
cd "$wt"
for f in $demos; do cp "$src/$f" "$pkg/"; done
go test $extra $tagarg -vet=off -count=1 -timeout 600s -run "$run" ./$pkg/ > "$out/demo_without.txt" 2>&1; r0=$?
if ! git apply "$src/patch.diff"; then echo "$id: PATCH DOES NOT APPLY to $head"; exit 3; fi
go build ./... > "$out/build.txt" 2>&1; rb=$?
go test $extra $tagarg -vet=off -count=1 -timeout 600s -run "$run" ./$pkg/ > "$out/demo_with.txt" 2>&1; r1=$?
for f in $demos; do rm -f "$pkg/$f"; done
go test -vet=off -count=1 ./... > "$out/suite_with.txt" 2>&1; rs=$?
cp "$src/patch.diff" "$out/patch.diff"; for f in $demos; do cp "$src/$f" "$out/$f.txt"; done
[ -f "$src/README.md" ] && cp "$src/README.md" "$out/README.md"
tail -c 1500 "$out/demo_with.txt" > "$out/demo_with.tail"; mv "$out/demo_with.tail" "$out/demo_with.txt"
tail -c 600 "$out/demo_without.txt" > "$out/demo_without.tail"; mv "$out/demo_without.tail" "$out/demo_without.txt"
tail -c 600 "$out/suite_with.txt" > "$out/suite.tail"; mv "$out/suite.tail" "$out/suite_with.txt"
echo "$id: base=$head demo_without_exit=$r0 build_exit=$rb demo_with_exit=$r1 suite_with_exit=$rs"
ok=false; [ $r0 = 0 ] && [ $rb = 0 ] && [ $r1 != 0 ] && [ $rs = 0 ] && ok=true
cat > "$out/confirm.json" <<EOF
{"seed": "$id", "base_commit": "$head", "package": "$pkg", "demo_run": "go test $extra $tagarg -vet=off -count=1 -timeout 600s -run '$run' ./$pkg/",
 "demo_without_change_exit": $r0, "build_with_change_exit": $rb, "demo_with_change_exit": $r1, "existing_suite_with_change_exit": $rs, "confirmed": $ok}
EOF
$ok && exit 0 || exit 1
